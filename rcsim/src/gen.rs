//! Seeded generator of rustemo grammars, valid by construction (every symbol
//! referenced is defined, every string match has a terminal), drawn from a
//! deliberately collision-prone pool of names (`A A1 A11 A2 ...`): the shapes
//! where generated identifiers get de-duplicated (DESIGN.md 4/C17 workload b).

use crate::prng::Rng;

const NT_POOL: &[&str] = &[
    "A", "A1", "A11", "A2", "A12", "B", "B1", "B2", "Ab", "AB", "C", "C1", "Item", "Items", "Opt", "Body", "E", "T", "X",
    "Y",
];
const RE_POOL: &[(&str, &str)] = &[
    ("Num", r"/\d+/"),
    ("Id", r"/[a-z][a-z0-9]*/"),
    ("Str", r#"/"[^"]*"/"#),
    ("A1", r"/\d+/"),
    ("A", r"/[a-z]+/"),
    ("B1", r"/[A-Z]+/"),
    ("A2", r"/#\d+/"),
    ("C1", r"/\$[a-z]*/"),
    ("Float", r"/\d+\.\d+/"),
];
const KW_POOL: &[&str] = &[
    "x", "y", "z", "w", "v", "u", "+", "-", "*", "/", ",", ";", "(", ")", "[", "]", "if", "then", "else", "=", "==", "->",
    "begin", "end", "a", "b", "c", "do", "<", ">",
];
const FIELD_POOL: &[&str] = &["left", "right", "name", "value", "first", "rest", "a", "b", "op", "item", "x"];
const KIND_POOL: &[&str] = &["Add", "Sub", "Mul", "Neg", "K", "K1", "A", "A1", "Leaf", "Pair"];

pub struct GenGrammar {
    pub text: String,
    /// Rough shape tags for evidence.
    pub tags: Vec<&'static str>,
}

fn kw_name(kw: &str, idx: usize) -> String {
    let mut s = String::from("K");
    for c in kw.chars() {
        if c.is_ascii_alphanumeric() {
            s.push(c.to_ascii_uppercase());
        }
    }
    s.push_str(&format!("_{idx}"));
    s
}

pub fn generate(rng: &mut Rng) -> GenGrammar {
    let mut tags: Vec<&'static str> = vec![];
    let n_rules = rng.range(2, 6);
    // distinct rule names
    let mut pool: Vec<&str> = NT_POOL.to_vec();
    rng.shuffle(&mut pool);
    // bias towards the A-family so that de-duplication collisions are common
    if rng.chance(2, 3) {
        let fam = ["A", "A1", "A2", "A11", "B", "B1"];
        for (i, f) in fam.iter().enumerate() {
            if let Some(p) = pool.iter().position(|x| x == f) {
                pool.swap(i + 1, p);
            }
        }
    }
    let rules: Vec<String> = pool[..n_rules].iter().map(|s| s.to_string()).collect();

    // regex terminals whose names do not clash with rule names
    let mut re_terms: Vec<(String, String)> = vec![];
    let mut re_pool: Vec<&(&str, &str)> = RE_POOL.iter().collect();
    rng.shuffle(&mut re_pool);
    let n_re = rng.range(1, 3);
    for (n, r) in re_pool {
        if re_terms.len() >= n_re {
            break;
        }
        if !rules.iter().any(|x| x == n) {
            re_terms.push((n.to_string(), r.to_string()));
        }
    }

    let mut kws: Vec<&str> = KW_POOL.to_vec();
    rng.shuffle(&mut kws);
    let mut used_kws: Vec<String> = vec![];
    let mut next_kw = 0usize;

    let content_syms: Vec<String> = rules.iter().cloned().chain(re_terms.iter().map(|t| t.0.clone())).collect();

    let has_layout = rng.chance(1, 4);
    let keyword_led = rng.chance(3, 5);
    if keyword_led {
        tags.push("keyword-led");
    }

    let mut out = String::new();
    for (ri, rule) in rules.iter().enumerate() {
        let n_alts = rng.range(1, 4);
        let vec_pattern = ri > 0 && rng.chance(1, 4);
        if vec_pattern {
            // the vec family: A: A B | B;  optionally annotated, and with the
            // variations a user writes: right recursion, a named single
            // element, alternatives that do not fit the pattern (a lone
            // keyword, three references, keyword + element), any order
            let elem = rng.pick(&content_syms).clone();
            if elem != *rule {
                if rng.chance(1, 2) {
                    out.push_str("@vec\n");
                    tags.push("@vec");
                }
                let mut take_kw = |rng: &mut Rng, used_kws: &mut Vec<String>| -> String {
                    let _ = rng;
                    let kw = kws[next_kw % kws.len()];
                    next_kw += 1;
                    if !used_kws.iter().any(|k| k == kw) {
                        used_kws.push(kw.to_string());
                    }
                    kw.to_string()
                };
                let sep = if rng.chance(1, 3) { format!(" '{}'", take_kw(rng, &mut used_kws)) } else { String::new() };
                let rec = if rng.chance(1, 6) {
                    tags.push("vec-right-recursive");
                    format!("{elem}{sep} {rule}")
                } else if rng.chance(1, 8) {
                    tags.push("vec-named");
                    format!("rest={rule}{sep} last={elem}")
                } else {
                    format!("{rule}{sep} {elem}")
                };
                let single = if rng.chance(1, 4) {
                    tags.push("vec-named");
                    format!("first={elem}")
                } else {
                    elem.clone()
                };
                let mut alts: Vec<String> = vec![rec, single];
                if rng.chance(1, 3) {
                    alts.push("EMPTY".into());
                }
                if rng.chance(1, 3) {
                    tags.push("near-vec");
                    let extra = match rng.below(3) {
                        0 => format!("'{}'", take_kw(rng, &mut used_kws)),
                        1 => format!("{elem} {elem} {elem}"),
                        _ => format!("'{}' {elem}", take_kw(rng, &mut used_kws)),
                    };
                    alts.push(extra);
                }
                if rng.chance(1, 2) {
                    rng.shuffle(&mut alts);
                }
                out.push_str(&format!("{rule}: {};\n", alts.join(" | ")));
                continue;
            }
        }
        // Collision focus: lone references in this rule are drawn from one or
        // two symbols only, preferably a pair (N, N1) -- the shape in which
        // de-duplicated names of one group collide with another group.
        let focus: Option<Vec<String>> = if rng.chance(1, 3) {
            let mut pairs: Vec<(String, String)> = vec![];
            for a in &content_syms {
                let b = format!("{a}1");
                if content_syms.iter().any(|x| *x == b) {
                    pairs.push((a.clone(), b));
                }
            }
            if !pairs.is_empty() && rng.chance(3, 4) {
                let p = rng.pick(&pairs).clone();
                Some(vec![p.0, p.1])
            } else {
                Some(vec![rng.pick(&content_syms).clone()])
            }
        } else {
            None
        };
        let n_alts = if focus.is_some() { rng.range(3, 5) } else { n_alts };
        if focus.is_some() {
            tags.push("collision-focus");
        }
        let rule_meta = if rng.chance(1, 10) { " {left}" } else { "" };
        out.push_str(&format!("{rule}{rule_meta}: "));
        let mut had_empty = false;
        for ai in 0..n_alts {
            if ai > 0 {
                out.push_str(" | ");
            }
            let len = if rng.chance(1, 8) && !had_empty && n_alts > 1 { 0 } else { rng.range(1, 4) };
            if len == 0 {
                out.push_str("EMPTY");
                had_empty = true;
                tags.push("empty");
                continue;
            }
            let mut parts: Vec<String> = vec![];
            if keyword_led || rng.chance(1, 3) {
                let kw = kws[next_kw % kws.len()];
                next_kw += 1;
                if !used_kws.iter().any(|k| k == kw) {
                    used_kws.push(kw.to_string());
                }
                parts.push(format!("'{kw}'"));
            }
            // the classic collision shape: a lone content reference
            let lone = rng.chance(1, 2) || (focus.is_some() && rng.chance(2, 3));
            let n_content = if lone { 1 } else { len };
            let mut used_fields: Vec<&str> = vec![];
            for _ in 0..n_content {
                // avoid `A: A;` style infinite recursion when alone in the alternative
                let mut sym = match &focus {
                    Some(f) if lone => rng.pick(f).clone(),
                    _ => rng.pick(&content_syms).clone(),
                };
                if parts.is_empty() && n_content == 1 && sym == *rule {
                    sym = re_terms[0].0.clone();
                }
                let mut s = String::new();
                if !lone && rng.chance(1, 4) {
                    let f = *rng.pick(FIELD_POOL);
                    if !used_fields.contains(&f) {
                        used_fields.push(f);
                        s.push_str(f);
                        s.push_str(if rng.chance(1, 4) { "?=" } else { "=" });
                        tags.push("assign");
                    }
                }
                s.push_str(&sym);
                if rng.chance(1, 6) {
                    let op = *rng.pick(&["?", "*", "+"]);
                    s.push_str(op);
                    tags.push("sugar");
                    if op != "?" && rng.chance(1, 3) && !used_kws.is_empty() {
                        // separator modifier: name of a keyword terminal
                        let k = rng.usize(used_kws.len());
                        s.push_str(&format!("[{}]", kw_name(&used_kws[k], k)));
                        tags.push("sep");
                    }
                }
                parts.push(s);
            }
            if rng.chance(1, 5) {
                let kw = kws[next_kw % kws.len()];
                next_kw += 1;
                if !used_kws.iter().any(|k| k == kw) {
                    used_kws.push(kw.to_string());
                }
                parts.push(format!("'{kw}'"));
            }
            out.push_str(&parts.join(" "));
            if rng.chance(1, 6) {
                let mut metas: Vec<String> = vec![];
                if rng.chance(1, 2) {
                    metas.push(rng.pick(KIND_POOL).to_string());
                    tags.push("kind");
                }
                if rng.chance(1, 3) {
                    metas.push(rng.pick(&["left", "right", "nops", "nopse"]).to_string());
                }
                if rng.chance(1, 3) {
                    metas.push(format!("{}", rng.range(1, 20)));
                }
                if !metas.is_empty() {
                    out.push_str(&format!(" {{{}}}", metas.join(", ")));
                }
            }
        }
        out.push_str(";\n");
    }

    if has_layout {
        tags.push("layout");
        out.push_str("Layout: LayoutItem*;\nLayoutItem: WS | Comment;\n");
    }

    // a rule defined in two places (its alternatives are merged)
    if rng.chance(1, 8) {
        let r = rng.pick(&rules).clone();
        let kw = kws[next_kw % kws.len()];
        let _ = next_kw + 1;
        if !used_kws.iter().any(|k| k == kw) {
            used_kws.push(kw.to_string());
        }
        out.push_str(&format!("{r}: '{kw}' {};\n", re_terms[0].0));
        tags.push("split-rule");
    }

    out.push_str("\nterminals\n");
    // two terminals with the same string recognizer: which one an inline
    // match resolves to must not depend on anything but the grammar
    let dup_before = rng.chance(1, 2);
    let dups: Vec<usize> = if rng.chance(1, 4) && !used_kws.is_empty() {
        tags.push("dup-recognizer");
        (0..used_kws.len()).filter(|_| rng.chance(1, 3)).collect()
    } else {
        vec![]
    };
    if dup_before {
        for &i in &dups {
            out.push_str(&format!("Dup{}_{}: '{}';\n", i, if rng.chance(1, 2) { "a" } else { "Z" }, used_kws[i]));
        }
    }
    for (i, kw) in used_kws.iter().enumerate() {
        let prio = if rng.chance(1, 10) { format!(" {{{}}}", rng.range(1, 30)) } else { String::new() };
        out.push_str(&format!("{}: '{}'{};\n", kw_name(kw, i), kw, prio));
    }
    if !dup_before {
        for &i in &dups {
            out.push_str(&format!("Dup{}_{}: '{}';\n", i, if rng.chance(1, 2) { "a" } else { "Z" }, used_kws[i]));
        }
    }
    for (n, r) in &re_terms {
        let meta = if rng.chance(1, 10) { " {prefer}" } else { "" };
        out.push_str(&format!("{n}: {r}{meta};\n"));
    }
    if has_layout {
        out.push_str("WS: /\\s+/;\nComment: /\\/\\/.*/;\n");
    }
    tags.sort();
    tags.dedup();
    GenGrammar { text: out, tags }
}
