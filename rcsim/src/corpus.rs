//! Workload grammars: every `*.rustemo` under /repo (read at run time, so a
//! grammar added to the repository is picked up) plus harness-owned ones.

use crate::sim::GrammarSrc;
use std::path::{Path, PathBuf};

fn walk(dir: &Path, out: &mut Vec<PathBuf>) {
    let mut entries: Vec<PathBuf> = match std::fs::read_dir(dir) {
        Ok(rd) => rd.filter_map(|e| e.ok().map(|e| e.path())).collect(),
        Err(_) => return,
    };
    entries.sort();
    for p in entries {
        let name = p.file_name().map(|n| n.to_string_lossy().to_string()).unwrap_or_default();
        if p.is_dir() {
            if name == "target" || name == ".git" || name == "node_modules" {
                continue;
            }
            walk(&p, out);
        } else if name.ends_with(".rustemo") {
            out.push(p);
        }
    }
}

pub fn load(repo: &Path, extra: &Path) -> Vec<GrammarSrc> {
    let mut v = vec![];
    for (base, prefix) in [(repo, "repo:"), (extra, "verif:")] {
        let mut files = vec![];
        walk(base, &mut files);
        for f in files {
            let bytes = match std::fs::read(&f) {
                Ok(b) => b,
                Err(_) => continue,
            };
            let rel = f.strip_prefix(base).unwrap_or(&f).to_string_lossy().to_string();
            // C16/C17/C18 quantify over grammar *texts*, not file names: the
            // stem becomes an identifier in generated code, so store every
            // grammar under a valid identifier (calculator-ambig -> calculator_ambig).
            let mut stem: String = f.file_stem().unwrap().to_string_lossy().chars().map(|c| if c.is_ascii_alphanumeric() || c == '_' { c } else { '_' }).collect();
            if stem.chars().next().map(|c| c.is_ascii_digit()).unwrap_or(true) {
                stem.insert(0, 'g');
            }
            v.push(GrammarSrc { id: format!("{prefix}{rel}"), stem, bytes });
        }
    }
    v
}

/// Tiny grammars that compile under every settings combination; used as
/// directory neighbours (a failing neighbour would stop `process_dir`).
pub fn neighbours() -> Vec<GrammarSrc> {
    let mk = |stem: &str, text: &str| GrammarSrc { id: format!("nb:{stem}"), stem: stem.into(), bytes: text.as_bytes().to_vec() };
    vec![
        mk("nbone", "Nb: 'n' Val;\nterminals\nKn: 'n';\nVal: /\\d+/;\n"),
        mk("aaa_first", "Zed: Zed 'z' | 'z';\nterminals\nKz: 'z';\n"),
        mk("zzz_last", "Pair: left=Word right=Word;\nterminals\nWord: /[a-z]+/;\n"),
        // feature-bearing neighbours: whatever a grammar may switch on inside a
        // shared `Settings` value or in process-global state must not leak into
        // the grammars processed after it (look-around regex, Layout rule,
        // @vec / sugar / priorities / associativity / dynamic meta-data)
        mk("bbb_look", "Look: Foo+;\nterminals\nFoo: /foo(?=\\s|$)/;\n"),
        mk("ccc_layout", "Lay: Num+;\nLayout: LayoutItem*;\nLayoutItem: WS | Comment;\nterminals\nNum: /\\d+/;\nWS: /\\s+/;\nComment: /#.*/;\n"),
        mk("mmm_meta", "@vec\nMeta: Meta Elem | Elem;\nElem: Elem '+' Elem {Add, 1, left} | Elem '*' Elem {Mul, 2, right} | Num? {Opt} | 'k' Num*[Comma] {dynamic};\nterminals\nNum: /\\d+/ {prefer};\nPlus: '+';\nStar: '*';\nComma: ',';\nKk: 'k' {10};\n"),
    ]
}
