//! A settings combination, independent of how it is handed to the compiler.
//! `apply` builds the API chain; `cli_args` builds the equivalent `rcomp`
//! command line from a table written from `rcomp --help` and the `Settings`
//! docs (not copied from main.rs) -- DESIGN.md 4/C17 oracle 2.

use crate::prng::Rng;
use rustemo_compiler::{BuilderType, GeneratorTableType, LexerType, ParserAlgo, Settings, TableType};
use serde_json::{json, Value};
use std::path::Path;

#[derive(Clone, Debug, PartialEq, Eq, PartialOrd, Ord)]
pub struct Spec {
    pub glr: bool,
    /// 0 = LALR, 1 = LALR_PAGER, 2 = LALR_RN.  For GLR always 2.
    pub table: u8,
    /// 0 = Default, 1 = Generic, 2 = Custom
    pub builder: u8,
    /// false = Functions (default), true = Arrays
    pub arrays: bool,
    pub loc_info: bool,
    pub fancy: bool,
    pub custom_lexer: bool,
    pub input_type: String,
    pub prefer_shifts: bool,
    pub prefer_shifts_over_empty: bool,
    pub most_specific: bool,
    pub longest_match: bool,
    pub grammar_order: bool,
    pub partial: bool,
    pub skip_ws: bool,
    pub actions: bool,
    pub force: bool,
    /// do not call `.force(..)` at all and rely on the documented default:
    /// with actions in the source tree an existing file is not overwritten
    /// unless force was given explicitly.  Only honoured when that default
    /// equals `force` (in-source, force == false); API vehicles only -- rcomp
    /// always passes the flag explicitly.
    pub force_implicit: bool,
    /// false: outputs next to the grammar; true: separate out dirs
    pub out_dirs: bool,
    /// with out_dirs: 0 = both `-o` and `-a`, 1 = only `-o` (actions stay next
    /// to the grammar), 2 = only `-a` (the parser stays next to the grammar)
    pub out_only: u8,
    /// side outputs that must not influence the two files
    pub dot: bool,
    pub trace: bool,
    pub print_table: bool,
}

impl Spec {
    pub fn lr_default() -> Spec {
        Spec {
            glr: false,
            table: 1,
            builder: 0,
            arrays: false,
            loc_info: false,
            fancy: false,
            custom_lexer: false,
            input_type: "str".into(),
            prefer_shifts: false,
            prefer_shifts_over_empty: true,
            most_specific: true,
            longest_match: true,
            grammar_order: true,
            partial: false,
            skip_ws: true,
            actions: true,
            force: true,
            force_implicit: false,
            out_dirs: false,
            out_only: 0,
            dot: false,
            trace: false,
            print_table: false,
        }
    }
    pub fn glr_default() -> Spec {
        Spec {
            glr: true,
            table: 2,
            prefer_shifts: false,
            prefer_shifts_over_empty: false,
            grammar_order: false,
            ..Spec::lr_default()
        }
    }

    /// Seeded settings combination that respects the documented
    /// preconditions of `Settings` (DESIGN.md 4/C17 "Workload").
    pub fn random(rng: &mut Rng) -> Spec {
        let mut s = if rng.chance(1, 2) { Spec::glr_default() } else { Spec::lr_default() };
        if !s.glr {
            s.table = rng.below(3) as u8;
            s.prefer_shifts = rng.chance(1, 3);
            s.prefer_shifts_over_empty = rng.chance(2, 3);
        } else {
            s.grammar_order = rng.chance(1, 3);
        }
        s.builder = *rng.pick(&[0u8, 0, 0, 1, 2]);
        s.arrays = rng.chance(1, 2);
        s.loc_info = rng.chance(1, 3);
        s.fancy = rng.chance(1, 5);
        s.custom_lexer = rng.chance(1, 8);
        if s.custom_lexer && rng.chance(1, 2) {
            s.input_type = "[u8]".into();
        }
        s.most_specific = rng.chance(3, 4);
        s.longest_match = rng.chance(3, 4);
        s.partial = rng.chance(1, 6);
        s.skip_ws = rng.chance(4, 5);
        s.actions = rng.chance(9, 10);
        s.out_dirs = rng.chance(1, 2);
        s.out_only = if s.out_dirs { *rng.pick(&[0u8, 0, 1, 2]) } else { 0 };
        s.force = rng.chance(2, 3);
        s.force_implicit = !s.force && !s.out_dirs && s.builder == 0 && rng.chance(1, 2);
        s.dot = rng.chance(1, 8);
        s.trace = rng.chance(1, 10);
        s.print_table = rng.chance(1, 10);
        s
    }

    pub fn parser_in_out(&self) -> bool {
        self.out_dirs && self.out_only != 2
    }
    pub fn actions_in_out(&self) -> bool {
        self.out_dirs && self.out_only != 1
    }

    pub fn table_type(&self) -> TableType {
        match self.table {
            0 => TableType::LALR,
            1 => TableType::LALR_PAGER,
            _ => TableType::LALR_RN,
        }
    }

    /// The API chain.  Every setting is given explicitly so that the result
    /// does not depend on env defaults (`OUT_DIR`, `CARGO_MANIFEST_DIR`).
    /// `env_defaults = true` instead relies on those two variables for the
    /// root and out dirs (the documented build.rs mode); the caller must have
    /// set them to the same directories.
    pub fn apply(&self, root: &Path, out: &Path, out_act: &Path, env_defaults: bool) -> Settings {
        let mut s = Settings::new();
        s = s.builder_type(match self.builder {
            0 => BuilderType::Default,
            1 => BuilderType::Generic,
            _ => BuilderType::Custom,
        });
        if self.out_dirs {
            if !env_defaults {
                s = s.root_dir(root.to_path_buf());
                s = match self.out_only {
                    0 => s.out_dir_root(out.to_path_buf()).out_dir_actions_root(out_act.to_path_buf()),
                    1 => {
                        let s = s.out_dir_root(out.to_path_buf());
                        if self.builder == 0 { s.actions_in_source_tree() } else { s }
                    }
                    _ => s.in_source_tree().out_dir_actions_root(out_act.to_path_buf()),
                };
            }
        } else {
            s = s.root_dir(root.to_path_buf()).in_source_tree();
        }
        if !(self.force_implicit && !self.force && !self.out_dirs && self.builder == 0) {
            s = s.force(self.force);
        }
        if self.glr {
            s = s.parser_algo(ParserAlgo::GLR);
            s = s.lexical_disamb_grammar_order(self.grammar_order);
        } else {
            s = s
                .parser_algo(ParserAlgo::LR)
                .table_type(self.table_type())
                .prefer_shifts(self.prefer_shifts)
                .prefer_shifts_over_empty(self.prefer_shifts_over_empty);
        }
        s = s
            .generator_table_type(if self.arrays { GeneratorTableType::Arrays } else { GeneratorTableType::Functions })
            .builder_loc_info(self.loc_info)
            .fancy_regex(self.fancy)
            .lexer_type(if self.custom_lexer { LexerType::Custom } else { LexerType::Default })
            .input_type(self.input_type.clone())
            .lexical_disamb_most_specific(self.most_specific)
            .lexical_disamb_longest_match(self.longest_match)
            .partial_parse(self.partial)
            .skip_ws(self.skip_ws)
            .actions(self.actions)
            .dot(self.dot)
            .print_table(self.print_table);
        if self.trace {
            s = s.trace(true);
        }
        s
    }

    /// The equivalent rcomp command line (without the grammar argument).
    /// Written from `rcomp --help`.  A flag is emitted only when the setting
    /// differs from the documented CLI default.
    pub fn cli_args(&self, out: &Path, out_act: &Path) -> Vec<String> {
        let mut a: Vec<String> = vec![];
        let d = if self.glr { Spec::glr_default() } else { Spec::lr_default() };
        if self.force {
            a.push("--force".into());
        }
        if self.dot {
            a.push("--dot".into());
        }
        if !self.actions {
            a.push("--noactions".into());
        }
        if self.trace {
            a.push("--trace".into());
        }
        if self.out_dirs {
            if self.out_only != 2 {
                a.push("-o".into());
                a.push(out.to_string_lossy().into());
            }
            if self.out_only != 1 {
                a.push("-a".into());
                a.push(out_act.to_string_lossy().into());
            }
        }
        if self.glr {
            a.push("--parser-algo".into());
            a.push("glr".into());
            if self.grammar_order != d.grammar_order {
                a.push(format!("--lexical-disamb-grammar-order={}", self.grammar_order));
            }
        } else {
            if self.prefer_shifts {
                a.push("--prefer-shifts".into());
            }
            if !self.prefer_shifts_over_empty {
                a.push("--no-shifts-over-empty".into());
            }
            if self.table != 1 {
                a.push("--table-type".into());
                a.push(match self.table { 0 => "lalr", 1 => "lalr-pager", _ => "lalr-rn" }.into());
            }
        }
        if self.arrays {
            a.push("--generator-table-type".into());
            a.push("arrays".into());
        }
        if self.custom_lexer {
            a.push("--lexer-type".into());
            a.push("custom".into());
        }
        if self.input_type != "str" {
            a.push("--input-type".into());
            a.push(self.input_type.clone());
        }
        if self.builder != 0 {
            a.push("--builder-type".into());
            a.push(if self.builder == 1 { "generic" } else { "custom" }.into());
        }
        if self.loc_info {
            a.push("--builder-loc-info".into());
        }
        if !self.most_specific {
            a.push("--lexical-disamb-most-specific=false".into());
        }
        if !self.longest_match {
            a.push("--lexical-disamb-longest-match=false".into());
        }
        if self.fancy {
            a.push("--fancy-regex".into());
        }
        if self.partial {
            a.push("--partial-parse".into());
        }
        if !self.skip_ws {
            a.push("--no-skip-ws".into());
        }
        if self.print_table {
            a.push("--print-table".into());
        }
        a
    }

    pub fn to_json(&self) -> Value {
        json!({
            "glr": self.glr, "table": self.table, "builder": self.builder, "arrays": self.arrays,
            "loc_info": self.loc_info, "fancy": self.fancy, "custom_lexer": self.custom_lexer,
            "input_type": self.input_type, "prefer_shifts": self.prefer_shifts,
            "prefer_shifts_over_empty": self.prefer_shifts_over_empty,
            "most_specific": self.most_specific, "longest_match": self.longest_match,
            "grammar_order": self.grammar_order, "partial": self.partial, "skip_ws": self.skip_ws,
            "actions": self.actions, "force": self.force, "force_implicit": self.force_implicit, "out_dirs": self.out_dirs, "out_only": self.out_only,
            "dot": self.dot, "trace": self.trace, "print_table": self.print_table,
        })
    }

    pub fn from_json(v: &Value) -> Option<Spec> {
        let b = |k: &str| v.get(k).and_then(|x| x.as_bool());
        let n = |k: &str| v.get(k).and_then(|x| x.as_u64()).map(|x| x as u8);
        Some(Spec {
            glr: b("glr")?,
            table: n("table")?,
            builder: n("builder")?,
            arrays: b("arrays")?,
            loc_info: b("loc_info")?,
            fancy: b("fancy")?,
            custom_lexer: b("custom_lexer")?,
            input_type: v.get("input_type")?.as_str()?.to_string(),
            prefer_shifts: b("prefer_shifts")?,
            prefer_shifts_over_empty: b("prefer_shifts_over_empty")?,
            most_specific: b("most_specific")?,
            longest_match: b("longest_match")?,
            grammar_order: b("grammar_order")?,
            partial: b("partial")?,
            skip_ws: b("skip_ws")?,
            actions: b("actions")?,
            force: b("force")?,
            force_implicit: b("force_implicit").unwrap_or(false),
            out_dirs: b("out_dirs")?,
            out_only: n("out_only").unwrap_or(0),
            dot: b("dot")?,
            trace: b("trace")?,
            print_table: b("print_table")?,
        })
    }

    /// Short label for evidence.
    pub fn label(&self) -> String {
        let mut s = String::new();
        s.push_str(if self.glr { "glr" } else { "lr" });
        s.push_str(match self.table { 0 => "/lalr", 1 => "/pager", _ => "/rn" });
        s.push_str(match self.builder { 0 => "/bdef", 1 => "/bgen", _ => "/bcus" });
        s.push_str(if self.arrays { "/arr" } else { "/fn" });
        let flags: [(&str, bool); 15] = [
            ("loc", self.loc_info), ("fancy", self.fancy), ("clex", self.custom_lexer),
            ("ps", self.prefer_shifts), ("nopsoe", !self.prefer_shifts_over_empty && !self.glr),
            ("noms", !self.most_specific), ("nolm", !self.longest_match),
            ("go", self.grammar_order && self.glr), ("partial", self.partial),
            ("nows", !self.skip_ws), ("noact", !self.actions), ("noforce", !self.force && !self.force_implicit), ("implforce", self.force_implicit),
            ("out", self.out_dirs), ("dot", self.dot),
        ];
        for (n, on) in flags {
            if on {
                s.push('+');
                s.push_str(n);
            }
        }
        if self.out_dirs && self.out_only != 0 {
            s.push_str(if self.out_only == 1 { "(-o only)" } else { "(-a only)" });
        }
        if self.input_type != "str" {
            s.push_str("+in=");
            s.push_str(&self.input_type);
        }
        s
    }
}
