/*
 * simlibc.so -- the OS seam of the rustemo simulators (DESIGN.md 3.1).
 *
 * LD_PRELOADed into the harness (rcsim/psim) and into spawned `rcomp`
 * processes.  Owns every source of nondeterminism the compiler can observe
 * through libc:
 *
 *   getrandom                     -> bytes derived from (hash_seed, call#)
 *   clock_gettime/gettimeofday/time -> epoch + #reads   (only when armed)
 *   getpid                        -> simulated pid       (only when armed)
 *   isatty                        -> simulated answer    (only when armed)
 *   open64/openat/creat/read/write/writev/close/lseek64/mkdir/
 *   stat64/lstat64/fstat64/statx/unlink
 *                                 -> pass through, but calls that touch the
 *                                    simulation root get a global event
 *                                    sequence number, are logged, and consult
 *                                    the fault plan
 *   opendir/readdir64/closedir    -> entries sorted, then permuted by
 *                                    hash(dir_seed, path)
 *
 * Nothing here reads a real clock, draws real randomness or allocates in a
 * way that depends on anything but its inputs.  When not armed the library is
 * a pure pass-through except for getrandom (once a hash seed has been set).
 *
 * Control: verif_shim_ctl() for in-process use (found with dlsym), or the
 * VERIF_SHIM environment variable for spawned processes (parsed in a
 * constructor; the event log is written to the file named by log= at exit).
 */
#define _GNU_SOURCE
#include <dirent.h>
#include <dlfcn.h>
#include <errno.h>
#include <fcntl.h>
#include <limits.h>
#include <stdarg.h>
#include <stdint.h>
#include <stdio.h>
#include <stdlib.h>
#include <string.h>
#include <sys/stat.h>
#include <sys/time.h>
#include <sys/types.h>
#include <sys/uio.h>
#include <time.h>
#include <unistd.h>

/* ---- public constants (mirrored in rcsim/src/shim.rs) ------------------ */
enum {
    CMD_RESET = 0,      /* clear counters, log, plan, fd table (keeps seeds/root) */
    CMD_SET_HASH_SEED = 1,
    CMD_SET_DIR_SEED = 2,
    CMD_SET_EPOCH = 3,
    CMD_SET_PID = 4,
    CMD_SET_TTY = 5,    /* a = 0/1, 2 = pass through */
    CMD_SET_ROOT = 6,   /* p = const char* */
    CMD_ADD_FAULT = 7,  /* a = event#, b = kind | (arg << 8) */
    CMD_ARM = 8,        /* a = 0/1 */
    CMD_GET_LOG = 9,    /* p = struct sim_event[a] ; returns count copied */
    CMD_GET_STAT = 10,  /* p = uint64_t[16] */
    CMD_VERSION = 11,
    CMD_RESET_RAND = 12 /* rand call counter := 0 */
};

enum { /* ops */
    OP_OPEN = 1, OP_READ, OP_WRITE, OP_CLOSE, OP_STAT, OP_MKDIR, OP_LSEEK,
    OP_OPENDIR, OP_UNLINK, OP_FSTAT
};

enum { /* fault kinds */
    F_NONE = 0,
    F_EINTR = 1,       /* benign: call fails once with EINTR */
    F_SHORT = 2,       /* benign: read/write transfers at most arg (>=1) bytes */
    F_ERRNO = 3,       /* failing: call fails with errno = arg */
    F_EOF = 4          /* the file was truncated by someone else after it was
                          stat'ed: this and every later read on the descriptor
                          returns 0 */
};

struct sim_event {
    uint32_t seq;
    uint8_t op;
    uint8_t fault;      /* fault kind that actually fired, 0 if none */
    int16_t err;        /* errno reported to the caller, 0 if success */
    int32_t ret;        /* return value (truncated) */
    uint32_t path_hash; /* FNV-1a of the path relative to the root */
};

#define MAX_LOG 4096
#define MAX_PLAN 64
#define MAX_FD 4096
#define MAX_DIRS 32

struct plan_entry { uint64_t ev; int kind; int arg; int fired; };

struct dirstate {
    DIR *dir;
    struct dirent64 *ents;
    int n, next;
};

static struct {
    int armed;
    int hash_seed_set;
    uint64_t hash_seed, rand_calls;
    uint64_t dir_seed;
    int64_t epoch;
    uint64_t clock_reads;
    int pid;
    int tty;
    char root[PATH_MAX];
    size_t root_len;
    uint64_t event_seq;
    struct plan_entry plan[MAX_PLAN];
    int nplan;
    struct sim_event log[MAX_LOG];
    int nlog;
    uint64_t log_dropped;
    uint32_t fd_hash[MAX_FD]; /* 0 = untracked, else path hash | 1 */
    uint8_t fd_eof[MAX_FD];   /* sticky EOF injected on this descriptor */
    struct dirstate dirs[MAX_DIRS];
    uint64_t faults_fired[5];
    uint64_t pid_reads, tty_reads, dirs_permuted;
    char exit_log[PATH_MAX];
} G = { .tty = 2 };

/* ---- real functions ---------------------------------------------------- */
#define REAL(name) real_##name
#define DECL(ret, name, ...) static ret (*REAL(name))(__VA_ARGS__)
DECL(int, open64, const char *, int, ...);
DECL(int, open, const char *, int, ...);
DECL(int, openat, int, const char *, int, ...);
DECL(int, openat64, int, const char *, int, ...);
DECL(ssize_t, read, int, void *, size_t);
DECL(ssize_t, write, int, const void *, size_t);
DECL(ssize_t, writev, int, const struct iovec *, int);
DECL(int, close, int);
DECL(off64_t, lseek64, int, off64_t, int);
DECL(int, mkdir, const char *, mode_t);
DECL(int, stat64, const char *, struct stat64 *);
DECL(int, lstat64, const char *, struct stat64 *);
DECL(int, fstat64, int, struct stat64 *);
DECL(int, stat, const char *, struct stat *);
DECL(int, lstat, const char *, struct stat *);
DECL(int, fstat, int, struct stat *);
DECL(int, statx, int, const char *, int, unsigned, struct statx *);
DECL(int, unlink, const char *);
DECL(DIR *, opendir, const char *);
DECL(struct dirent64 *, readdir64, DIR *);
DECL(int, closedir, DIR *);
DECL(int, clock_gettime, clockid_t, struct timespec *);
DECL(int, gettimeofday, struct timeval *, void *);
DECL(time_t, time, time_t *);
DECL(pid_t, getpid, void);
DECL(int, isatty, int);
DECL(ssize_t, getrandom, void *, size_t, unsigned);

static int resolved;
static void resolve(void)
{
    if (resolved) return;
    resolved = 1;
#define R(name) REAL(name) = dlsym(RTLD_NEXT, #name)
    R(open64); R(open); R(openat); R(openat64); R(read); R(write); R(writev);
    R(close); R(lseek64); R(mkdir); R(stat64); R(lstat64); R(fstat64);
    R(stat); R(lstat); R(fstat); R(statx); R(unlink); R(opendir);
    R(readdir64); R(closedir); R(clock_gettime); R(gettimeofday); R(time);
    R(getpid); R(isatty); R(getrandom);
#undef R
}

/* ---- helpers ----------------------------------------------------------- */
static uint64_t splitmix64(uint64_t x)
{
    x += 0x9E3779B97F4A7C15ULL;
    x = (x ^ (x >> 30)) * 0xBF58476D1CE4E5B9ULL;
    x = (x ^ (x >> 27)) * 0x94D049BB133111EBULL;
    return x ^ (x >> 31);
}

static uint32_t fnv1a(const char *s)
{
    uint32_t h = 2166136261u;
    for (; *s; s++) { h ^= (uint8_t)*s; h *= 16777619u; }
    return h;
}

/* Lexically normalise `in` (made absolute against the cwd) into out. */
static int abs_path(int dirfd, const char *in, char *out, size_t cap)
{
    char tmp[PATH_MAX * 2];
    if (!in) return -1;
    if (in[0] == '/') {
        if (strlen(in) >= sizeof tmp) return -1;
        strcpy(tmp, in);
    } else {
        if (dirfd != AT_FDCWD) return -1; /* not used by std for our paths */
        if (!getcwd(tmp, PATH_MAX)) return -1;
        size_t l = strlen(tmp);
        if (l + 1 + strlen(in) >= sizeof tmp) return -1;
        tmp[l] = '/';
        strcpy(tmp + l + 1, in);
    }
    /* collapse //, /./ and /../ */
    size_t o = 0;
    const char *p = tmp;
    while (*p) {
        while (*p == '/') p++;
        if (!*p) break;
        const char *e = p;
        while (*e && *e != '/') e++;
        size_t len = (size_t)(e - p);
        if (len == 1 && p[0] == '.') {
            /* skip */
        } else if (len == 2 && p[0] == '.' && p[1] == '.') {
            while (o > 0 && out[o - 1] != '/') o--;
            if (o > 0) o--;
        } else {
            if (o + 1 + len + 1 >= cap) return -1;
            out[o++] = '/';
            memcpy(out + o, p, len);
            o += len;
        }
        p = e;
    }
    if (o == 0) out[o++] = '/';
    out[o] = 0;
    return 0;
}

/* Returns path hash|1 if the path is under the simulation root, else 0. */
static uint32_t tracked_path(int dirfd, const char *path)
{
    char abs[PATH_MAX];
    if (!G.armed || G.root_len == 0) return 0;
    if (abs_path(dirfd, path, abs, sizeof abs) != 0) return 0;
    if (strncmp(abs, G.root, G.root_len) != 0) return 0;
    if (abs[G.root_len] != '/' && abs[G.root_len] != 0) return 0;
    return fnv1a(abs + G.root_len) | 1u;
}

static uint32_t tracked_fd(int fd)
{
    if (!G.armed || fd < 3 || fd >= MAX_FD) return 0;
    return G.fd_hash[fd];
}

/* Allocates the next event number and returns the planned fault for it. */
/* A program that spins on I/O (e.g. a read loop that never sees its byte
 * count) crosses this seam on every iteration: a budget of events is a
 * deterministic detector for it. */
#define EVENT_BUDGET 3000000ULL

static struct plan_entry *next_event(uint64_t *seq)
{
    *seq = G.event_seq++;
    if (G.event_seq > EVENT_BUDGET) {
        static const char msg[] = "simlibc: I/O event budget exceeded (spinning on I/O)\n";
        if (REAL(write)) REAL(write)(2, msg, sizeof msg - 1);
        _exit(99);
    }
    for (int i = 0; i < G.nplan; i++)
        if (G.plan[i].ev == *seq && !G.plan[i].fired) return &G.plan[i];
    return NULL;
}

static void log_event(uint64_t seq, int op, int fault, int err, long ret, uint32_t ph)
{
    if (G.nlog >= MAX_LOG) { G.log_dropped++; return; }
    struct sim_event *e = &G.log[G.nlog++];
    e->seq = (uint32_t)seq;
    e->op = (uint8_t)op;
    e->fault = (uint8_t)fault;
    e->err = (int16_t)err;
    e->ret = (int32_t)ret;
    e->path_hash = ph;
}

static void fired(struct plan_entry *f)
{
    f->fired = 1;
    if (f->kind >= 0 && f->kind < 5) G.faults_fired[f->kind]++;
}

/* A fault that makes the call fail without performing it.  Returns 1 and sets
 * errno if it applies to this op. */
static int fail_fault(struct plan_entry *f, int op, int *err)
{
    if (!f) return 0;
    if (f->kind == F_ERRNO) { *err = f->arg; return 1; }
    if (f->kind == F_EINTR && (op == OP_OPEN || op == OP_READ || op == OP_WRITE)) {
        *err = EINTR;
        return 1;
    }
    return 0;
}

/* ---- control ----------------------------------------------------------- */
static void do_reset(void)
{
    G.rand_calls = 0;
    G.clock_reads = 0;
    G.event_seq = 0;
    G.nplan = 0;
    G.nlog = 0;
    G.log_dropped = 0;
    memset(G.fd_hash, 0, sizeof G.fd_hash);
    memset(G.fd_eof, 0, sizeof G.fd_eof);
    memset(G.faults_fired, 0, sizeof G.faults_fired);
    G.pid_reads = G.tty_reads = G.dirs_permuted = 0;
}

long verif_shim_ctl(int cmd, uint64_t a, uint64_t b, void *p)
{
    resolve();
    switch (cmd) {
    case CMD_RESET: do_reset(); return 0;
    case CMD_SET_HASH_SEED: G.hash_seed = a; G.hash_seed_set = 1; G.rand_calls = 0; return 0;
    case CMD_SET_DIR_SEED: G.dir_seed = a; return 0;
    case CMD_SET_EPOCH: G.epoch = (int64_t)a; return 0;
    case CMD_SET_PID: G.pid = (int)a; return 0;
    case CMD_SET_TTY: G.tty = (int)a; return 0;
    case CMD_SET_ROOT: {
        const char *s = p;
        size_t l = strlen(s);
        while (l > 1 && s[l - 1] == '/') l--;
        if (l >= sizeof G.root) return -1;
        memcpy(G.root, s, l);
        G.root[l] = 0;
        G.root_len = l;
        return 0;
    }
    case CMD_ADD_FAULT:
        if (G.nplan >= MAX_PLAN) return -1;
        G.plan[G.nplan].ev = a;
        G.plan[G.nplan].kind = (int)(b & 0xff);
        G.plan[G.nplan].arg = (int)(b >> 8);
        G.plan[G.nplan].fired = 0;
        G.nplan++;
        return 0;
    case CMD_ARM: G.armed = (int)a; return 0;
    case CMD_GET_LOG: {
        int n = G.nlog;
        if ((uint64_t)n > a) n = (int)a;
        memcpy(p, G.log, (size_t)n * sizeof(struct sim_event));
        return n;
    }
    case CMD_GET_STAT: {
        uint64_t *o = p;
        o[0] = G.rand_calls; o[1] = G.clock_reads; o[2] = G.event_seq;
        o[3] = G.faults_fired[F_EINTR]; o[4] = G.faults_fired[F_SHORT];
        o[5] = G.faults_fired[F_ERRNO]; o[6] = G.log_dropped;
        o[11] = G.faults_fired[F_EOF];
        o[7] = G.pid_reads; o[8] = G.tty_reads; o[9] = G.dirs_permuted;
        o[10] = (uint64_t)G.nlog;
        return 0;
    }
    case CMD_VERSION: return 4;
    case CMD_RESET_RAND: G.rand_calls = 0; return 0;
    }
    return -1;
}

static void write_exit_log(void)
{
    if (!G.exit_log[0]) return;
    resolve();
    int fd = REAL(open64)(G.exit_log, O_WRONLY | O_CREAT | O_TRUNC, 0644);
    if (fd < 0) return;
    char line[160];
    int n = snprintf(line, sizeof line, "stat rand=%llu clock=%llu events=%llu eintr=%llu short=%llu errno=%llu pid=%llu tty=%llu dirs=%llu\n",
                     (unsigned long long)G.rand_calls, (unsigned long long)G.clock_reads,
                     (unsigned long long)G.event_seq, (unsigned long long)G.faults_fired[F_EINTR],
                     (unsigned long long)G.faults_fired[F_SHORT], (unsigned long long)G.faults_fired[F_ERRNO],
                     (unsigned long long)G.pid_reads, (unsigned long long)G.tty_reads,
                     (unsigned long long)G.dirs_permuted);
    REAL(write)(fd, line, (size_t)n);
    for (int i = 0; i < G.nlog; i++) {
        struct sim_event *e = &G.log[i];
        n = snprintf(line, sizeof line, "ev %u %u %u %d %d %u\n", e->seq, e->op, e->fault, e->err, e->ret, e->path_hash);
        REAL(write)(fd, line, (size_t)n);
    }
    REAL(close)(fd);
}

/* VERIF_SHIM="hash=1,dir=2,epoch=3,pid=4,tty=0,root=/x,log=/y,plan=5:3:28;7:1:0" */
__attribute__((constructor)) static void shim_init(void)
{
    resolve();
    const char *cfg = getenv("VERIF_SHIM");
    if (!cfg || !*cfg) return;
    char buf[PATH_MAX * 3];
    if (strlen(cfg) >= sizeof buf) return;
    strcpy(buf, cfg);
    char *save = NULL;
    for (char *tok = strtok_r(buf, ",", &save); tok; tok = strtok_r(NULL, ",", &save)) {
        char *eq = strchr(tok, '=');
        if (!eq) continue;
        *eq = 0;
        const char *k = tok, *v = eq + 1;
        if (!strcmp(k, "hash")) verif_shim_ctl(CMD_SET_HASH_SEED, strtoull(v, NULL, 10), 0, NULL);
        else if (!strcmp(k, "dir")) G.dir_seed = strtoull(v, NULL, 10);
        else if (!strcmp(k, "epoch")) G.epoch = strtoll(v, NULL, 10);
        else if (!strcmp(k, "pid")) G.pid = atoi(v);
        else if (!strcmp(k, "tty")) G.tty = atoi(v);
        else if (!strcmp(k, "root")) verif_shim_ctl(CMD_SET_ROOT, 0, 0, (void *)v);
        else if (!strcmp(k, "log")) { strncpy(G.exit_log, v, sizeof G.exit_log - 1); }
        else if (!strcmp(k, "plan")) {
            char pl[1024];
            strncpy(pl, v, sizeof pl - 1);
            pl[sizeof pl - 1] = 0;
            char *s2 = NULL;
            for (char *e = strtok_r(pl, ";", &s2); e; e = strtok_r(NULL, ";", &s2)) {
                unsigned long long ev; int kind, arg;
                if (sscanf(e, "%llu:%d:%d", &ev, &kind, &arg) == 3)
                    verif_shim_ctl(CMD_ADD_FAULT, ev, (uint64_t)kind | ((uint64_t)arg << 8), NULL);
            }
        }
    }
    G.armed = 1;
    if (G.exit_log[0]) atexit(write_exit_log);
}

/* ---- randomness, time, identity ---------------------------------------- */
ssize_t getrandom(void *buf, size_t len, unsigned flags)
{
    resolve();
    if (!G.hash_seed_set) {
        if (REAL(getrandom)) return REAL(getrandom)(buf, len, flags);
        errno = ENOSYS;
        return -1;
    }
    uint8_t *o = buf;
    uint64_t call = G.rand_calls++;
    for (size_t i = 0; i < len; i += 8) {
        uint64_t v = splitmix64(G.hash_seed ^ splitmix64(call * 0x100000001b3ULL + i / 8 + 1));
        size_t n = len - i < 8 ? len - i : 8;
        memcpy(o + i, &v, n);
    }
    return (ssize_t)len;
}

int clock_gettime(clockid_t clk, struct timespec *ts)
{
    resolve();
    if (!G.armed) return REAL(clock_gettime)(clk, ts);
    uint64_t n = G.clock_reads++;
    ts->tv_sec = (time_t)(G.epoch + (int64_t)n);
    ts->tv_nsec = 0;
    return 0;
}

int gettimeofday(struct timeval *tv, void *tz)
{
    resolve();
    if (!G.armed) return REAL(gettimeofday)(tv, tz);
    uint64_t n = G.clock_reads++;
    if (tv) { tv->tv_sec = (time_t)(G.epoch + (int64_t)n); tv->tv_usec = 0; }
    return 0;
}

time_t time(time_t *t)
{
    resolve();
    if (!G.armed) return REAL(time)(t);
    time_t v = (time_t)(G.epoch + (int64_t)G.clock_reads++);
    if (t) *t = v;
    return v;
}

pid_t getpid(void)
{
    resolve();
    if (!G.armed || G.pid == 0) return REAL(getpid)();
    G.pid_reads++;
    return (pid_t)G.pid;
}

int isatty(int fd)
{
    resolve();
    if (!G.armed || G.tty == 2 || fd > 2) return REAL(isatty)(fd);
    G.tty_reads++;
    if (G.tty) return 1;
    errno = ENOTTY;
    return 0;
}

/* ---- file I/O ---------------------------------------------------------- */
static int open_common(int which, int dirfd, const char *path, int flags, mode_t mode)
{
    resolve();
    uint32_t ph = tracked_path(dirfd, path);
    uint64_t seq = 0;
    struct plan_entry *f = NULL;
    int err = 0;
    if (ph) {
        f = next_event(&seq);
        if (fail_fault(f, OP_OPEN, &err)) {
            fired(f);
            log_event(seq, OP_OPEN, f->kind, err, -1, ph);
            errno = err;
            return -1;
        }
    }
    int fd;
    switch (which) {
    case 0: fd = REAL(open64)(path, flags, mode); break;
    case 1: fd = REAL(open)(path, flags, mode); break;
    case 2: fd = REAL(openat)(dirfd, path, flags, mode); break;
    default: fd = REAL(openat64)(dirfd, path, flags, mode); break;
    }
    if (ph) {
        int e = errno;
        if (fd >= 0 && fd < MAX_FD) G.fd_hash[fd] = ph;
        log_event(seq, OP_OPEN, 0, fd < 0 ? e : 0, fd < 0 ? -1 : 0, ph);
        errno = e;
    }
    return fd;
}

#define GET_MODE \
    mode_t mode = 0; \
    if ((flags & O_CREAT) || (flags & O_TMPFILE) == O_TMPFILE) { va_list ap; va_start(ap, flags); mode = va_arg(ap, mode_t); va_end(ap); }

int open64(const char *path, int flags, ...) { GET_MODE return open_common(0, AT_FDCWD, path, flags, mode); }
int open(const char *path, int flags, ...) { GET_MODE return open_common(1, AT_FDCWD, path, flags, mode); }
int openat(int dirfd, const char *path, int flags, ...) { GET_MODE return open_common(2, dirfd, path, flags, mode); }
int openat64(int dirfd, const char *path, int flags, ...) { GET_MODE return open_common(3, dirfd, path, flags, mode); }

ssize_t read(int fd, void *buf, size_t count)
{
    resolve();
    uint32_t ph = tracked_fd(fd);
    if (!ph) return REAL(read)(fd, buf, count);
    uint64_t seq;
    struct plan_entry *f = next_event(&seq);
    int err = 0, fk = 0;
    if (fail_fault(f, OP_READ, &err)) {
        fired(f);
        log_event(seq, OP_READ, f->kind, err, -1, ph);
        errno = err;
        return -1;
    }
    if (f && f->kind == F_EOF) {
        fired(f);
        G.fd_eof[fd] = 1;
    }
    if (G.fd_eof[fd]) {
        log_event(seq, OP_READ, F_EOF, 0, 0, ph);
        return 0;
    }
    if (f && f->kind == F_SHORT && count > (size_t)(f->arg < 1 ? 1 : f->arg)) {
        count = (size_t)(f->arg < 1 ? 1 : f->arg);
        fired(f);
        fk = F_SHORT;
    }
    ssize_t r = REAL(read)(fd, buf, count);
    int e = errno;
    log_event(seq, OP_READ, fk, r < 0 ? e : 0, (long)r, ph);
    errno = e;
    return r;
}

ssize_t write(int fd, const void *buf, size_t count)
{
    resolve();
    uint32_t ph = tracked_fd(fd);
    if (!ph) return REAL(write)(fd, buf, count);
    uint64_t seq;
    struct plan_entry *f = next_event(&seq);
    int err = 0, fk = 0;
    if (fail_fault(f, OP_WRITE, &err)) {
        fired(f);
        log_event(seq, OP_WRITE, f->kind, err, -1, ph);
        errno = err;
        return -1;
    }
    if (f && f->kind == F_SHORT && count > (size_t)(f->arg < 1 ? 1 : f->arg)) {
        count = (size_t)(f->arg < 1 ? 1 : f->arg);
        fired(f);
        fk = F_SHORT;
    }
    ssize_t r = REAL(write)(fd, buf, count);
    int e = errno;
    log_event(seq, OP_WRITE, fk, r < 0 ? e : 0, (long)r, ph);
    errno = e;
    return r;
}

ssize_t writev(int fd, const struct iovec *iov, int iovcnt)
{
    resolve();
    uint32_t ph = tracked_fd(fd);
    if (!ph) return REAL(writev)(fd, iov, iovcnt);
    /* Route through write() so the same fault kinds apply: write the first
     * non-empty buffer (a legal short writev). */
    for (int i = 0; i < iovcnt; i++)
        if (iov[i].iov_len) return write(fd, iov[i].iov_base, iov[i].iov_len);
    return 0;
}

int close(int fd)
{
    resolve();
    uint32_t ph = tracked_fd(fd);
    if (!ph) return REAL(close)(fd);
    uint64_t seq;
    struct plan_entry *f = next_event(&seq);
    /* The descriptor is always released (Linux semantics); a failing fault
     * only changes the reported result. */
    int r = REAL(close)(fd);
    int e = errno;
    G.fd_hash[fd] = 0;
    G.fd_eof[fd] = 0;
    if (f && f->kind == F_ERRNO) {
        fired(f);
        log_event(seq, OP_CLOSE, F_ERRNO, f->arg, -1, ph);
        errno = f->arg;
        return -1;
    }
    log_event(seq, OP_CLOSE, 0, r < 0 ? e : 0, r, ph);
    errno = e;
    return r;
}

off64_t lseek64(int fd, off64_t off, int whence)
{
    resolve();
    uint32_t ph = tracked_fd(fd);
    if (!ph) return REAL(lseek64)(fd, off, whence);
    uint64_t seq;
    struct plan_entry *f = next_event(&seq);
    int err = 0;
    if (f && f->kind == F_ERRNO) {
        err = f->arg;
        fired(f);
        log_event(seq, OP_LSEEK, F_ERRNO, err, -1, ph);
        errno = err;
        return -1;
    }
    off64_t r = REAL(lseek64)(fd, off, whence);
    int e = errno;
    log_event(seq, OP_LSEEK, 0, r < 0 ? e : 0, (long)r, ph);
    errno = e;
    return r;
}

int mkdir(const char *path, mode_t mode)
{
    resolve();
    uint32_t ph = tracked_path(AT_FDCWD, path);
    if (!ph) return REAL(mkdir)(path, mode);
    uint64_t seq;
    struct plan_entry *f = next_event(&seq);
    if (f && f->kind == F_ERRNO) {
        fired(f);
        log_event(seq, OP_MKDIR, F_ERRNO, f->arg, -1, ph);
        errno = f->arg;
        return -1;
    }
    int r = REAL(mkdir)(path, mode);
    int e = errno;
    log_event(seq, OP_MKDIR, 0, r < 0 ? e : 0, r, ph);
    errno = e;
    return r;
}

int unlink(const char *path)
{
    resolve();
    uint32_t ph = tracked_path(AT_FDCWD, path);
    if (!ph) return REAL(unlink)(path);
    uint64_t seq;
    struct plan_entry *f = next_event(&seq);
    if (f && f->kind == F_ERRNO) {
        fired(f);
        log_event(seq, OP_UNLINK, F_ERRNO, f->arg, -1, ph);
        errno = f->arg;
        return -1;
    }
    int r = REAL(unlink)(path);
    int e = errno;
    log_event(seq, OP_UNLINK, 0, r < 0 ? e : 0, r, ph);
    errno = e;
    return r;
}

/* stat family: one macro for the path variants, one for fd variants */
#define STAT_PATH(name, sttype) \
    int name(const char *path, sttype *st) \
    { \
        resolve(); \
        uint32_t ph = tracked_path(AT_FDCWD, path); \
        if (!ph) return REAL(name)(path, st); \
        uint64_t seq; \
        struct plan_entry *f = next_event(&seq); \
        if (f && f->kind == F_ERRNO) { \
            fired(f); \
            log_event(seq, OP_STAT, F_ERRNO, f->arg, -1, ph); \
            errno = f->arg; \
            return -1; \
        } \
        int r = REAL(name)(path, st); \
        int e = errno; \
        log_event(seq, OP_STAT, 0, r < 0 ? e : 0, r, ph); \
        errno = e; \
        return r; \
    }
STAT_PATH(stat64, struct stat64)
STAT_PATH(lstat64, struct stat64)
STAT_PATH(stat, struct stat)
STAT_PATH(lstat, struct stat)

#define STAT_FD(name, sttype) \
    int name(int fd, sttype *st) \
    { \
        resolve(); \
        uint32_t ph = tracked_fd(fd); \
        if (!ph) return REAL(name)(fd, st); \
        uint64_t seq; \
        struct plan_entry *f = next_event(&seq); \
        if (f && f->kind == F_ERRNO) { \
            fired(f); \
            log_event(seq, OP_FSTAT, F_ERRNO, f->arg, -1, ph); \
            errno = f->arg; \
            return -1; \
        } \
        int r = REAL(name)(fd, st); \
        int e = errno; \
        log_event(seq, OP_FSTAT, 0, r < 0 ? e : 0, r, ph); \
        errno = e; \
        return r; \
    }
STAT_FD(fstat64, struct stat64)
STAT_FD(fstat, struct stat)

int statx(int dirfd, const char *path, int flags, unsigned mask, struct statx *stx)
{
    resolve();
    if (!REAL(statx)) { errno = ENOSYS; return -1; }
    uint32_t ph;
    int op;
    if (path && path[0] == 0 && (flags & AT_EMPTY_PATH)) { ph = tracked_fd(dirfd); op = OP_FSTAT; }
    else { ph = tracked_path(dirfd, path); op = OP_STAT; }
    if (!ph) return REAL(statx)(dirfd, path, flags, mask, stx);
    uint64_t seq;
    struct plan_entry *f = next_event(&seq);
    if (f && f->kind == F_ERRNO) {
        fired(f);
        log_event(seq, op, F_ERRNO, f->arg, -1, ph);
        errno = f->arg;
        return -1;
    }
    int r = REAL(statx)(dirfd, path, flags, mask, stx);
    int e = errno;
    log_event(seq, op, 0, r < 0 ? e : 0, r, ph);
    errno = e;
    return r;
}

/* ---- directories ------------------------------------------------------- */
static int ent_cmp(const void *a, const void *b)
{
    return strcmp(((const struct dirent64 *)a)->d_name, ((const struct dirent64 *)b)->d_name);
}

DIR *opendir(const char *path)
{
    resolve();
    uint32_t ph = tracked_path(AT_FDCWD, path);
    if (!ph) return REAL(opendir)(path);
    uint64_t seq;
    struct plan_entry *f = next_event(&seq);
    if (f && f->kind == F_ERRNO) {
        fired(f);
        log_event(seq, OP_OPENDIR, F_ERRNO, f->arg, -1, ph);
        errno = f->arg;
        return NULL;
    }
    DIR *d = REAL(opendir)(path);
    int e = errno;
    log_event(seq, OP_OPENDIR, 0, d ? 0 : e, d ? 0 : -1, ph);
    if (d) {
        for (int i = 0; i < MAX_DIRS; i++) {
            if (G.dirs[i].dir) continue;
            struct dirstate *s = &G.dirs[i];
            int cap = 64;
            s->ents = malloc((size_t)cap * sizeof *s->ents);
            s->n = 0;
            s->next = 0;
            struct dirent64 *de;
            while (s->ents && (de = REAL(readdir64)(d))) {
                if (s->n == cap) {
                    cap *= 2;
                    struct dirent64 *ne = realloc(s->ents, (size_t)cap * sizeof *s->ents);
                    if (!ne) break;
                    s->ents = ne;
                }
                s->ents[s->n++] = *de;
            }
            if (!s->ents) { s->n = 0; break; }
            qsort(s->ents, (size_t)s->n, sizeof *s->ents, ent_cmp);
            /* Fisher-Yates driven by hash(dir_seed, path) */
            uint64_t st = splitmix64(G.dir_seed ^ ((uint64_t)ph << 17));
            for (int k = s->n - 1; k > 0; k--) {
                st = splitmix64(st);
                int j = (int)(st % (uint64_t)(k + 1));
                struct dirent64 t = s->ents[k];
                s->ents[k] = s->ents[j];
                s->ents[j] = t;
            }
            s->dir = d;
            G.dirs_permuted++;
            break;
        }
    }
    errno = e;
    return d;
}

struct dirent64 *readdir64(DIR *d)
{
    resolve();
    for (int i = 0; i < MAX_DIRS; i++) {
        if (G.dirs[i].dir == d && d) {
            struct dirstate *s = &G.dirs[i];
            if (s->next >= s->n) return NULL;
            return &s->ents[s->next++];
        }
    }
    return REAL(readdir64)(d);
}

struct dirent *readdir(DIR *d)
{
    /* struct dirent and dirent64 are identical on x86_64 glibc */
    return (struct dirent *)readdir64(d);
}

int closedir(DIR *d)
{
    resolve();
    for (int i = 0; i < MAX_DIRS; i++) {
        if (G.dirs[i].dir == d && d) {
            free(G.dirs[i].ents);
            memset(&G.dirs[i], 0, sizeof G.dirs[i]);
            break;
        }
    }
    return REAL(closedir)(d);
}
