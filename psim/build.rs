//! Generates the corpus parsers with /repo's *current* compiler and writes
//! `$OUT_DIR/parsers.rs`, which `include!`s each generated module inside a
//! wrapper module and registers one simulation case per parser
//! (DESIGN.md 4/C15 "Seams owned by the simulator").

use rustemo_compiler::{BuilderType, GeneratorTableType, LexerType, ParserAlgo, Settings};

#[path = "../rcsim/src/prng.rs"]
mod prng;
use prng::Rng;
use serde_json::Value;
use std::fmt::Write as _;
use std::path::{Path, PathBuf};

fn pascal(s: &str) -> String {
    let mut out = String::new();
    let mut up = true;
    for c in s.chars() {
        if c == '_' || c == '-' {
            up = true;
        } else if up {
            out.extend(c.to_uppercase());
            up = false;
        } else {
            out.push(c);
        }
    }
    out
}

fn main() {
    let verif = std::env::var("VERIF_DIR").unwrap_or_else(|_| "/verif".into());
    let corpus = PathBuf::from(&verif).join("corpus/psim");
    let manifest_path = corpus.join("manifest.json");
    println!("cargo:rerun-if-changed={}", manifest_path.display());
    println!("cargo:rerun-if-env-changed=VERIF_DIR");
    // rebuild whenever the compiler or runtime sources change
    println!("cargo:rerun-if-changed=/repo/rustemo-compiler/src");
    println!("cargo:rerun-if-changed=/repo/rustemo/src");
    let out_dir = PathBuf::from(std::env::var("OUT_DIR").unwrap());
    let manifest: Value = serde_json::from_str(&std::fs::read_to_string(&manifest_path).expect("corpus manifest")).expect("manifest json");
    let mut code = String::new();
    let mut registry = String::new();
    for e in manifest["entries"].as_array().expect("entries") {
        let id = e["id"].as_str().unwrap();
        let stem = e["stem"].as_str().unwrap();
        let glr = e["algo"].as_str() == Some("glr");
        let b = |k: &str, d: bool| e.get(k).and_then(|v| v.as_bool()).unwrap_or(d);
        let lexer = e.get("lexer").and_then(|v| v.as_str()).unwrap_or("default");
        let bytes_input = e.get("input").and_then(|v| v.as_str()) == Some("bytes");
        let grammar_src = corpus.join(id).join(format!("{stem}.rustemo"));
        println!("cargo:rerun-if-changed={}", grammar_src.display());
        let text = std::fs::read_to_string(&grammar_src).expect("grammar");
        let has_layout = text.lines().any(|l| {
            let l = l.trim_start();
            l.to_lowercase().starts_with("layout") && l[6..].trim_start().starts_with(':')
        });
        for (layout, arrays) in [("fn", false), ("arr", true)] {
            let modname = format!("{id}_{layout}");
            let dir = out_dir.join(&modname);
            let _ = std::fs::remove_dir_all(&dir);
            std::fs::create_dir_all(&dir).unwrap();
            let gpath = dir.join(format!("{stem}.rustemo"));
            std::fs::write(&gpath, &text).unwrap();
            let mut s = Settings::new()
                .root_dir(dir.clone())
                .out_dir_root(dir.clone())
                .out_dir_actions_root(dir.clone())
                .force(true)
                .builder_type(BuilderType::Generic)
                .generator_table_type(if arrays { GeneratorTableType::Arrays } else { GeneratorTableType::Functions });
            if glr {
                s = s.parser_algo(ParserAlgo::GLR);
                if let Some(go) = e.get("grammar_order").and_then(|v| v.as_bool()) {
                    s = s.lexical_disamb_grammar_order(go);
                }
            } else {
                s = s.prefer_shifts(b("prefer_shifts", false));
            }
            s = s
                .partial_parse(b("partial", false))
                .fancy_regex(b("fancy", false))
                .lexical_disamb_most_specific(b("most_specific", true))
                .lexical_disamb_longest_match(b("longest_match", true));
            if lexer != "default" {
                s = s.lexer_type(LexerType::Custom).input_type("[u8]".into());
            }
            if let Err(err) = s.process_grammar(&gpath) {
                panic!("psim corpus entry {id} ({layout}) does not compile with /repo's compiler: {err}");
            }
            let gen_path = dir.join(format!("{stem}.rs"));
            let gen = std::fs::read_to_string(&gen_path).expect("generated parser");
            let file = syn::parse_file(&gen).expect("generated parser parses");
            let mut kinds: Vec<String> = vec![];
            let mut def_name = String::new();
            for item in &file.items {
                match item {
                    syn::Item::Enum(en) if en.ident == "TokenKind" => {
                        kinds = en.variants.iter().map(|v| v.ident.to_string()).collect();
                    }
                    syn::Item::Static(st) if st.ident == "PARSER_DEFINITION" => {
                        if let syn::Type::Path(p) = &*st.ty {
                            def_name = p.path.segments.last().unwrap().ident.to_string();
                        }
                    }
                    _ => {}
                }
            }
            assert!(!kinds.is_empty() && !def_name.is_empty(), "trusted item names not found in generated parser {modname}");
            writeln!(code, "pub mod {modname} {{\n    #![allow(warnings, clippy::all)]\n    include!({:?});", gen_path.display().to_string()).unwrap();
            writeln!(code, "    pub const ALL_TOKEN_KINDS: &[TokenKind] = &[{}];", kinds.iter().map(|k| format!("TokenKind::{k}")).collect::<Vec<_>>().join(", ")).unwrap();
            writeln!(code, "    pub const TOKEN_KIND_NAMES: &[&str] = &[{}];", kinds.iter().map(|k| format!("{k:?}")).collect::<Vec<_>>().join(", ")).unwrap();
            writeln!(code, "    pub type Def = {def_name};").unwrap();
            if lexer != "default" {
                // the repository's documented custom lexers, copied verbatim
                let n = if lexer == "custom1" { 1 } else { 2 };
                writeln!(code, "    pub use crate::parsers::{modname} as custom_lexer_{n};").unwrap();
                writeln!(code, "    pub mod user_lexer {{ #![allow(warnings)] include!({:?}); }}", format!("{verif}/psim/src/lexers/custom_lexer_{n}_lexer.rs")).unwrap();
            }
            writeln!(code, "}}").unwrap();
            let partial = b("partial", false);
            let skip_ws = !has_layout;
            let _ = pascal(stem);
            let mac = match (glr, lexer) {
                (false, "default") => format!("lr_case!({modname}, {id:?}, {layout:?}, {partial}, {has_layout}, {skip_ws})"),
                (true, "default") => format!("glr_case!({modname}, {id:?}, {layout:?}, {partial}, {has_layout}, {skip_ws}, {})", b("cyclic", false)),
                (false, "custom1") => format!("lr_bytes_case!({modname}, {id:?}, {layout:?}, MyCustomLexer1)"),
                (false, "custom2") => format!("lr_bytes_case!({modname}, {id:?}, {layout:?}, MyCustomLexer2)"),
                _ => panic!("unsupported combination for {id}"),
            };
            let _ = bytes_input;
            writeln!(registry, "        {mac},").unwrap();
        }
        // the generated DefaultBuilder (the most common configuration): its
        // match arms and stack handling are generated code too
        if !glr && lexer == "default" && b("default_builder", false) {
            let modname = format!("{id}_def");
            let dir = out_dir.join(&modname);
            let _ = std::fs::remove_dir_all(&dir);
            std::fs::create_dir_all(&dir).unwrap();
            let gpath = dir.join(format!("{stem}.rustemo"));
            std::fs::write(&gpath, &text).unwrap();
            let s = Settings::new()
                .root_dir(dir.clone())
                .out_dir_root(dir.clone())
                .out_dir_actions_root(dir.clone())
                .force(true)
                .builder_type(BuilderType::Default)
                .generator_table_type(GeneratorTableType::Functions)
                .prefer_shifts(b("prefer_shifts", false))
                .partial_parse(b("partial", false))
                .fancy_regex(b("fancy", false))
                .lexical_disamb_most_specific(b("most_specific", true))
                .lexical_disamb_longest_match(b("longest_match", true));
            if let Err(err) = s.process_grammar(&gpath) {
                panic!("psim corpus entry {id} (default builder) does not compile with /repo's compiler: {err}");
            }
            let gen_path = dir.join(format!("{stem}.rs"));
            let act_path = dir.join(format!("{stem}_actions.rs"));
            let gen = std::fs::read_to_string(&gen_path).expect("generated parser");
            let file = syn::parse_file(&gen).expect("generated parser parses");
            let mut kinds: Vec<String> = vec![];
            let mut def_name = String::new();
            for item in &file.items {
                match item {
                    syn::Item::Enum(en) if en.ident == "TokenKind" => kinds = en.variants.iter().map(|v| v.ident.to_string()).collect(),
                    syn::Item::Static(st) if st.ident == "PARSER_DEFINITION" => {
                        if let syn::Type::Path(p) = &*st.ty {
                            def_name = p.path.segments.last().unwrap().ident.to_string();
                        }
                    }
                    _ => {}
                }
            }
            writeln!(code, "pub mod {modname} {{\n    #![allow(warnings, clippy::all)]\n    pub mod {stem} {{\n        include!({:?});", gen_path.display().to_string()).unwrap();
            writeln!(code, "        pub const ALL_TOKEN_KINDS: &[TokenKind] = &[{}];", kinds.iter().map(|k| format!("TokenKind::{k}")).collect::<Vec<_>>().join(", ")).unwrap();
            writeln!(code, "        pub const TOKEN_KIND_NAMES: &[&str] = &[{}];", kinds.iter().map(|k| format!("{k:?}")).collect::<Vec<_>>().join(", ")).unwrap();
            writeln!(code, "        pub type Def = {def_name};\n    }}").unwrap();
            writeln!(code, "    pub mod {stem}_actions {{\n        include!({:?});\n    }}\n    pub use self::{stem}::*;\n}}", act_path.display().to_string()).unwrap();
            let partial = b("partial", false);
            let skip_ws = !has_layout;
            writeln!(registry, "        lr_def_case!({modname}, {id:?}, {partial}, {has_layout}, {skip_ws}),").unwrap();
        }
    }
    // ---- seeded generated grammars with sentences derived by construction ----
    let mut gen_entries: Vec<Value> = vec![];
    let mut gen_skipped = 0usize;
    for n in 0..GEN_GRAMMARS {
        let mut rng = Rng::new(prng::sub_seed(0x5eed, 77, n as u64));
        let want_lr = n % 3 == 2;
        let with_layout = n >= GEN_LAYOUT_FROM;
        let g = gen_grammar(&mut rng, want_lr, with_layout);
        let id = format!("gen_{n:02}");
        let stem = "gg";
        let modname = format!("{id}_fn");
        let dir = out_dir.join(&modname);
        let _ = std::fs::remove_dir_all(&dir);
        std::fs::create_dir_all(&dir).unwrap();
        let gpath = dir.join(format!("{stem}.rustemo"));
        std::fs::write(&gpath, &g.text).unwrap();
        let mut s = Settings::new()
            .root_dir(dir.clone())
            .out_dir_root(dir.clone())
            .out_dir_actions_root(dir.clone())
            .force(true)
            .builder_type(BuilderType::Generic)
            .generator_table_type(GeneratorTableType::Functions);
        if !want_lr {
            s = s.parser_algo(ParserAlgo::GLR).lexical_disamb_most_specific(!g.flags_off).lexical_disamb_longest_match(!g.flags_off);
        } else {
            // no implicit conflict resolution: a conflict means "not in the corpus"
            s = s.prefer_shifts(false).prefer_shifts_over_empty(false);
        }
        // the compiler prints conflicts for LR attempts; a grammar that is not
        // LR is simply not part of the corpus
        if s.process_grammar(&gpath).is_err() {
            gen_skipped += 1;
            continue;
        }
        let gen_path = dir.join(format!("{stem}.rs"));
        let gen = std::fs::read_to_string(&gen_path).expect("generated parser");
        let file = syn::parse_file(&gen).expect("generated parser parses");
        let mut kinds: Vec<String> = vec![];
        let mut def_name = String::new();
        for item in &file.items {
            match item {
                syn::Item::Enum(en) if en.ident == "TokenKind" => kinds = en.variants.iter().map(|v| v.ident.to_string()).collect(),
                syn::Item::Static(st) if st.ident == "PARSER_DEFINITION" => {
                    if let syn::Type::Path(p) = &*st.ty {
                        def_name = p.path.segments.last().unwrap().ident.to_string();
                    }
                }
                _ => {}
            }
        }
        writeln!(code, "pub mod {modname} {{\n    #![allow(warnings, clippy::all)]\n    include!({:?});", gen_path.display().to_string()).unwrap();
        writeln!(code, "    pub const ALL_TOKEN_KINDS: &[TokenKind] = &[{}];", kinds.iter().map(|k| format!("TokenKind::{k}")).collect::<Vec<_>>().join(", ")).unwrap();
        writeln!(code, "    pub const TOKEN_KIND_NAMES: &[&str] = &[{}];", kinds.iter().map(|k| format!("{k:?}")).collect::<Vec<_>>().join(", ")).unwrap();
        writeln!(code, "    pub type Def = {def_name};\n}}").unwrap();
        let mac = if want_lr {
            format!("lr_case!({modname}, {id:?}, \"fn\", false, {with_layout}, {})", !with_layout)
        } else {
            format!("glr_case!({modname}, {id:?}, \"fn\", false, {with_layout}, {}, false)", !with_layout)
        };
        writeln!(registry, "        {mac},").unwrap();
        gen_entries.push(serde_json::json!({
            "id": id, "stem": stem, "algo": if want_lr { "lr" } else { "glr" },
            "sentences": g.sentences.iter().map(|t| serde_json::json!({"text": t, "valid": true})).collect::<Vec<_>>(),
            "c12": "TGW",
            "w_eligible": true, "w_reason": "generated: no terminal can match whitespace",
            "w_ascii_only": with_layout,
            "grammar": g.text,
        }));
    }
    std::fs::write(out_dir.join("gen_manifest.json"), serde_json::to_string_pretty(&serde_json::json!({"entries": gen_entries, "skipped_not_compilable": gen_skipped})).unwrap()).unwrap();
    writeln!(code, "pub fn registry() -> Vec<Box<dyn crate::case::ParserCase>> {{\n    vec![\n{registry}    ]\n}}").unwrap();
    std::fs::write(out_dir.join("parsers.rs"), code).unwrap();
    let _ = Path::new("");
}

// ---------------------------------------------------------------------------
// Seeded grammar generator for psim (DESIGN.md 10.14): small grammars whose
// string terminals overlap ("a", "ab", "abc" ...), so that one text has
// several tokenisations with different token counts, plus sentences obtained
// by random derivation -- sentences by construction, no membership oracle
// needed.  No unit or epsilon cycles (every recursive alternative contains a
// terminal), so forests are finite.
// ---------------------------------------------------------------------------
const GEN_GRAMMARS: usize = 60;
/// generated grammars from this index on carry a Layout rule (whitespace and
/// `%` line comments parsed by the inner layout parser instead of skip_ws)
const GEN_LAYOUT_FROM: usize = 36;

struct GenG {
    text: String,
    sentences: Vec<String>,
    /// most-specific and longest-match off: every tokenisation is explored, so
    /// sentences may be written without separating spaces
    flags_off: bool,
}

#[derive(Clone)]
enum Sym {
    T(usize),
    N(usize),
}

fn gen_grammar(rng: &mut Rng, lr: bool, layout: bool) -> GenG {
    // terminals: (name, recognizer text, example)
    let overlapping = [("Ta", "a"), ("Tab", "ab"), ("Tabc", "abc"), ("Tb", "b"), ("Tbc", "bc"), ("Tc", "c"), ("Tca", "ca")];
    let plain = [("Plus", "+"), ("Semi", ";"), ("LP", "("), ("RP", ")"), ("Kx", "x"), ("Ky", "y"), ("Kz", "z"), ("Kw", "w")];
    let regexes = [("Num", "/\\d+/", "42"), ("Word", "/[m-p]+/", "mop"), ("Hash", "/#[0-9]/", "#7")];
    let mut terms: Vec<(String, String, String, bool)> = vec![]; // name, recognizer, example, is_regex
    let flags_off = !lr && rng.chance(2, 3);
    let pool: Vec<(&str, &str)> = if lr { plain.to_vec() } else { overlapping.iter().chain(plain.iter()).copied().collect() };
    let mut idx: Vec<usize> = (0..pool.len()).collect();
    rng.shuffle(&mut idx);
    let nt = rng.range(3, if lr { 6 } else { 7 });
    for i in idx.into_iter().take(nt) {
        terms.push((pool[i].0.to_string(), format!("'{}'", pool[i].1), pool[i].1.to_string(), false));
    }
    let nre = rng.range(0, 2);
    let mut ridx: Vec<usize> = (0..regexes.len()).collect();
    rng.shuffle(&mut ridx);
    for i in ridx.into_iter().take(nre) {
        terms.push((regexes[i].0.to_string(), regexes[i].1.to_string(), regexes[i].2.to_string(), true));
    }
    let n_nt = rng.range(2, 4);
    // alternatives per non-terminal
    let mut prods: Vec<Vec<Vec<Sym>>> = vec![];
    for a in 0..n_nt {
        let mut alts: Vec<Vec<Sym>> = vec![];
        let n_alts = rng.range(1, 3);
        for k in 0..n_alts {
            // LR grammars must be deterministic *without any disambiguation
            // taking effect* (the scope of C01/C12): epsilon-free, every
            // alternative of a non-terminal starts with a different terminal,
            // no left recursion (s-grammars are SLR(1)).
            let len = if !lr && k > 0 && rng.chance(1, 6) { 0 } else { rng.range(1, 3) };
            let mut rhs: Vec<Sym> = vec![];
            for _ in 0..len {
                if a + 1 < n_nt && rng.chance(2, 5) {
                    rhs.push(Sym::N(rng.range(a + 1, n_nt - 1)));
                } else {
                    rhs.push(Sym::T(rng.usize(terms.len())));
                }
            }
            if lr && !rhs.is_empty() {
                // keyword-led alternatives keep the grammar deterministic
                rhs.insert(0, Sym::T(k % terms.len()));
            }
            alts.push(rhs);
        }
        // direct recursion with a terminal in the recursive alternative
        if rng.chance(1, 2) {
            if lr {
                // right recursion led by a terminal no other alternative starts with
                let k = alts.len();
                if k < terms.len() {
                    alts.push(vec![Sym::T(k), Sym::T(rng.usize(terms.len())), Sym::N(a)]);
                }
            } else {
                let t = Sym::T(rng.usize(terms.len()));
                let rec = if rng.chance(1, 2) { vec![Sym::N(a), t, Sym::T(rng.usize(terms.len()))] } else { vec![t, Sym::N(a)] };
                alts.push(rec);
            }
        }
        // at least one non-empty alternative first
        if alts.iter().all(|r| r.is_empty()) {
            alts.insert(0, vec![Sym::T(rng.usize(terms.len()))]);
        }
        prods.push(alts);
    }
    let mut text = String::new();
    for (a, alts) in prods.iter().enumerate() {
        let rhs: Vec<String> = alts
            .iter()
            .map(|r| if r.is_empty() { "EMPTY".to_string() } else { r.iter().map(|s| match s { Sym::T(t) => terms[*t].0.clone(), Sym::N(n) => format!("N{n}") }).collect::<Vec<_>>().join(" ") })
            .collect();
        text.push_str(&format!("N{a}: {};\n", rhs.join(" | ")));
    }
    if layout {
        text.push_str("Layout: LayoutItem*;\nLayoutItem: WS | Comment;\n");
    }
    text.push_str("terminals\n");
    for t in &terms {
        text.push_str(&format!("{}: {};\n", t.0, t.1));
    }
    if layout {
        text.push_str("WS: /\\s+/;\nComment: /%[^\\n]*/;\n");
    }
    // sentences by random derivation
    fn derive(rng: &mut Rng, prods: &[Vec<Vec<Sym>>], terms: &[(String, String, String, bool)], n: usize, depth: usize, out: &mut Vec<String>) {
        let alts = &prods[n];
        // Non-recursive alternatives only reference higher-numbered
        // non-terminals, so taking one of them beyond the depth limit
        // guarantees termination; the result is a derivation either way.
        let non_recursive: Vec<&Vec<Sym>> = alts.iter().filter(|r| !r.iter().any(|s| matches!(s, Sym::N(m) if *m == n))).collect();
        let choice: Vec<Sym> = if depth > 3 { non_recursive[rng.usize(non_recursive.len())].clone() } else { alts[rng.usize(alts.len())].clone() };
        for s in choice {
            match s {
                Sym::T(t) => out.push(terms[t].2.clone()),
                Sym::N(m) => derive(rng, prods, terms, m, depth + 1, out),
            }
        }
    }
    let mut sentences: Vec<String> = vec![];
    for k in 0..8 {
        let mut toks: Vec<String> = vec![];
        derive(rng, &prods, &terms, 0, 0, &mut toks);
        if toks.len() > 40 {
            continue;
        }
        let any_regex = terms.iter().any(|t| t.3);
        // without spaces only when every tokenisation is explored and no regex
        // token can swallow its neighbours
        let glued = flags_off && !any_regex && k % 2 == 1;
        let s = if glued {
            toks.join("")
        } else if layout {
            // gaps are layout: whitespace, newlines and `%` line comments
            const GAPS: &[&str] = &[" ", " ", "\n", "  ", " % note\n", "\t%\n  ", " % a % b\n% c\n"];
            let mut s = String::new();
            if rng.chance(1, 4) {
                s.push_str("% lead\n");
            }
            for (i, t) in toks.iter().enumerate() {
                if i > 0 {
                    s.push_str(GAPS[rng.usize(GAPS.len())]);
                }
                s.push_str(t);
            }
            if rng.chance(1, 4) {
                s.push_str(" % tail");
            }
            s
        } else {
            toks.join(" ")
        };
        if !sentences.contains(&s) {
            sentences.push(s);
        }
    }
    GenG { text, sentences, flags_off }
}
