//! fork + pipe + watchdog, shared by rcsim and psim (DESIGN.md 3.3).

use std::io::Write;

/// How a forked child ended when it did not deliver a result.
#[derive(Clone, Debug, PartialEq, Eq)]
pub enum ChildEnd {
    Abort(String),
    Timeout,
}

/// Fork a child, run `f` in it (which must write its result to the given fd
/// and `_exit`), and return what it wrote, or how it died.
pub fn fork_collect(timeout_ms: i32, f: impl FnOnce(i32)) -> Result<String, ChildEnd> {
    let mut fds = [0i32; 2];
    unsafe {
        if libc::pipe(fds.as_mut_ptr()) != 0 {
            return Err(ChildEnd::Abort("pipe failed".into()));
        }
        // flush our own buffered stdout so the child does not duplicate it
        let _ = std::io::stdout().flush();
        let pid = libc::fork();
        if pid < 0 {
            return Err(ChildEnd::Abort("fork failed".into()));
        }
        if pid == 0 {
            libc::close(fds[0]);
            f(fds[1]);
            libc::_exit(3);
        }
        libc::close(fds[1]);
        let mut buf: Vec<u8> = vec![];
        let mut timed_out = false;
        let mut left = timeout_ms;
        loop {
            let mut pfd = libc::pollfd { fd: fds[0], events: libc::POLLIN, revents: 0 };
            let step = 1000.min(left.max(1));
            let r = libc::poll(&mut pfd, 1, step);
            if r == 0 {
                left -= step;
                if left <= 0 {
                    timed_out = true;
                    libc::kill(pid, libc::SIGKILL);
                    break;
                }
                continue;
            }
            if r < 0 {
                if *libc::__errno_location() == libc::EINTR {
                    continue;
                }
                break;
            }
            let mut tmp = [0u8; 65536];
            let n = libc::read(fds[0], tmp.as_mut_ptr() as *mut libc::c_void, tmp.len());
            if n < 0 {
                if *libc::__errno_location() == libc::EINTR {
                    continue;
                }
                break;
            }
            if n == 0 {
                break;
            }
            buf.extend_from_slice(&tmp[..n as usize]);
        }
        libc::close(fds[0]);
        let mut status = 0i32;
        loop {
            let r = libc::waitpid(pid, &mut status, 0);
            if r < 0 && *libc::__errno_location() == libc::EINTR {
                continue;
            }
            break;
        }
        if timed_out {
            return Err(ChildEnd::Timeout);
        }
        if libc::WIFSIGNALED(status) {
            return Err(ChildEnd::Abort(format!("signal {}", libc::WTERMSIG(status))));
        }
        if libc::WIFEXITED(status) && libc::WEXITSTATUS(status) != 0 {
            return Err(ChildEnd::Abort(format!("exit status {}", libc::WEXITSTATUS(status))));
        }
        String::from_utf8(buf).map_err(|_| ChildEnd::Abort("child wrote invalid utf-8".into()))
    }
}

