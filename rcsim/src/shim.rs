//! Binding to the LD_PRELOADed OS seam (shim/simlibc.c).  The control function
//! is looked up with dlsym at run time so the crate links without the .so;
//! if it is missing the harness exits 2 (harness error), never 0 or 1.

use std::ffi::{c_char, c_int, c_long, c_void, CString};

extern "C" {
    fn dlsym(handle: *mut c_void, symbol: *const c_char) -> *mut c_void;
}

type CtlFn = unsafe extern "C" fn(c_int, u64, u64, *mut c_void) -> c_long;

pub const CMD_RESET: c_int = 0;
pub const CMD_SET_HASH_SEED: c_int = 1;
pub const CMD_SET_DIR_SEED: c_int = 2;
pub const CMD_SET_EPOCH: c_int = 3;
pub const CMD_SET_PID: c_int = 4;
pub const CMD_SET_TTY: c_int = 5;
pub const CMD_SET_ROOT: c_int = 6;
pub const CMD_ADD_FAULT: c_int = 7;
pub const CMD_ARM: c_int = 8;
pub const CMD_GET_LOG: c_int = 9;
pub const CMD_GET_STAT: c_int = 10;
pub const CMD_VERSION: c_int = 11;
pub const CMD_RESET_RAND: c_int = 12;

pub const OP_NAMES: [&str; 11] = [
    "?", "open", "read", "write", "close", "stat", "mkdir", "lseek", "opendir", "unlink", "fstat",
];
pub const OP_OPEN: u8 = 1;
pub const OP_READ: u8 = 2;
pub const OP_WRITE: u8 = 3;
pub const OP_CLOSE: u8 = 4;
pub const OP_STAT: u8 = 5;
pub const OP_MKDIR: u8 = 6;
pub const OP_LSEEK: u8 = 7;
pub const OP_OPENDIR: u8 = 8;
pub const OP_UNLINK: u8 = 9;
pub const OP_FSTAT: u8 = 10;

pub const F_EINTR: u8 = 1;
pub const F_SHORT: u8 = 2;
pub const F_ERRNO: u8 = 3;
pub const F_EOF: u8 = 4;

#[repr(C)]
#[derive(Clone, Copy, Debug, Default, PartialEq, Eq)]
pub struct SimEvent {
    pub seq: u32,
    pub op: u8,
    pub fault: u8,
    pub err: i16,
    pub ret: i32,
    pub path_hash: u32,
}

#[derive(Clone, Copy, Debug, Default)]
pub struct ShimStat {
    pub rand_calls: u64,
    pub clock_reads: u64,
    pub events: u64,
    pub eintr: u64,
    pub short: u64,
    pub errno: u64,
    pub log_dropped: u64,
    pub pid_reads: u64,
    pub tty_reads: u64,
    pub dirs_permuted: u64,
    pub eof: u64,
}

#[derive(Clone, Copy)]
pub struct Shim {
    ctl: CtlFn,
}

impl Shim {
    /// None if the process was not started under LD_PRELOAD=simlibc.so.
    pub fn find() -> Option<Shim> {
        let name = CString::new("verif_shim_ctl").unwrap();
        // RTLD_DEFAULT == NULL
        let p = unsafe { dlsym(std::ptr::null_mut(), name.as_ptr()) };
        if p.is_null() {
            return None;
        }
        let ctl: CtlFn = unsafe { std::mem::transmute(p) };
        let s = Shim { ctl };
        if s.call(CMD_VERSION, 0, 0) != 4 {
            return None;
        }
        Some(s)
    }
    fn call(&self, cmd: c_int, a: u64, b: u64) -> i64 {
        unsafe { (self.ctl)(cmd, a, b, std::ptr::null_mut()) as i64 }
    }
    pub fn reset(&self) {
        self.call(CMD_RESET, 0, 0);
    }
    pub fn set_hash_seed(&self, s: u64) {
        self.call(CMD_SET_HASH_SEED, s, 0);
    }
    pub fn reset_rand(&self) {
        self.call(CMD_RESET_RAND, 0, 0);
    }
    pub fn set_dir_seed(&self, s: u64) {
        self.call(CMD_SET_DIR_SEED, s, 0);
    }
    pub fn set_epoch(&self, s: i64) {
        self.call(CMD_SET_EPOCH, s as u64, 0);
    }
    pub fn set_pid(&self, p: u32) {
        self.call(CMD_SET_PID, p as u64, 0);
    }
    pub fn set_tty(&self, t: u32) {
        self.call(CMD_SET_TTY, t as u64, 0);
    }
    pub fn set_root(&self, root: &str) {
        let c = CString::new(root).unwrap();
        unsafe { (self.ctl)(CMD_SET_ROOT, 0, 0, c.as_ptr() as *mut c_void) };
    }
    pub fn add_fault(&self, event: u64, kind: u8, arg: i32) {
        self.call(CMD_ADD_FAULT, event, kind as u64 | ((arg as u32 as u64) << 8));
    }
    pub fn arm(&self, on: bool) {
        self.call(CMD_ARM, on as u64, 0);
    }
    pub fn log(&self) -> Vec<SimEvent> {
        let mut v = vec![SimEvent::default(); 4096];
        let n = unsafe { (self.ctl)(CMD_GET_LOG, v.len() as u64, 0, v.as_mut_ptr() as *mut c_void) };
        v.truncate(n.max(0) as usize);
        v
    }
    pub fn stat(&self) -> ShimStat {
        let mut o = [0u64; 16];
        unsafe { (self.ctl)(CMD_GET_STAT, 0, 0, o.as_mut_ptr() as *mut c_void) };
        ShimStat {
            rand_calls: o[0],
            clock_reads: o[1],
            events: o[2],
            eintr: o[3],
            short: o[4],
            errno: o[5],
            log_dropped: o[6],
            pid_reads: o[7],
            tty_reads: o[8],
            dirs_permuted: o[9],
            eof: o[11],
        }
    }
}
