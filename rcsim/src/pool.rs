//! Worker fan-out (DESIGN.md 3.3): W forked worker processes; worker w handles
//! the items with index = w (mod W) strictly sequentially and returns one JSON
//! summary.  Summaries are merged by commutative operations only, so the
//! result does not depend on W.

use serde_json::Value;

/// Runs `work(w, nworkers)` in `nworkers` forked children and returns their
/// summaries in worker order.  Err = harness error (exit 2).
pub fn fan_out(nworkers: usize, work: &dyn Fn(usize, usize) -> Value) -> Result<Vec<Value>, String> {
    use std::io::Write;
    let _ = std::io::stdout().flush();
    let mut kids: Vec<(i32, i32)> = vec![];
    for w in 0..nworkers {
        let mut fds = [0i32; 2];
        unsafe {
            if libc::pipe(fds.as_mut_ptr()) != 0 {
                return Err("pipe failed".into());
            }
            let pid = libc::fork();
            if pid < 0 {
                return Err("fork failed".into());
            }
            if pid == 0 {
                libc::close(fds[0]);
                for (_, rfd) in &kids {
                    libc::close(*rfd);
                }
                let v = std::panic::catch_unwind(std::panic::AssertUnwindSafe(|| work(w, nworkers)));
                let s = match v {
                    Ok(v) => v.to_string(),
                    Err(_) => "{\"harness_panic\":true}".to_string(),
                };
                let b = s.as_bytes();
                let mut off = 0usize;
                while off < b.len() {
                    let n = libc::write(fds[1], b[off..].as_ptr() as *const libc::c_void, b.len() - off);
                    if n <= 0 {
                        break;
                    }
                    off += n as usize;
                }
                libc::_exit(0);
            }
            libc::close(fds[1]);
            kids.push((pid, fds[0]));
        }
    }
    let mut out = vec![];
    let mut err: Option<String> = None;
    for (w, (pid, rfd)) in kids.iter().enumerate() {
        let mut buf: Vec<u8> = vec![];
        unsafe {
            loop {
                let mut tmp = [0u8; 65536];
                let n = libc::read(*rfd, tmp.as_mut_ptr() as *mut libc::c_void, tmp.len());
                if n < 0 {
                    if *libc::__errno_location() == libc::EINTR {
                        continue;
                    }
                    break;
                }
                if n == 0 {
                    break;
                }
                buf.extend_from_slice(&tmp[..n as usize]);
            }
            libc::close(*rfd);
            let mut status = 0i32;
            loop {
                let r = libc::waitpid(*pid, &mut status, 0);
                if r < 0 && *libc::__errno_location() == libc::EINTR {
                    continue;
                }
                break;
            }
            if !(libc::WIFEXITED(status) && libc::WEXITSTATUS(status) == 0) {
                err = Some(format!("worker {w} died (status {status:#x})"));
                continue;
            }
        }
        match serde_json::from_slice::<Value>(&buf) {
            Ok(v) => {
                if v.get("harness_panic").is_some() {
                    err = Some(format!("worker {w} panicked inside the harness"));
                }
                out.push(v)
            }
            Err(e) => err = Some(format!("worker {w} returned unparsable summary: {e}")),
        }
    }
    match err {
        Some(e) => Err(e),
        None => Ok(out),
    }
}
