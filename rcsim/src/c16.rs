//! C16 -- the compiler is total under storage and syscall faults.
//!
//! The grammar file is corrupted *on the scratch disk* the way real storage
//! corrupts files (torn write, lost/duplicated block, misdirected write, bit
//! flip, zero-filled tail) or a syscall of the compile is made to fail, and
//! the compile runs through the normal path.  Oracle: the call returns
//! `Ok(())` or `Err(e)` with a non-empty message -- never a panic, an abort,
//! a signal or a hang.  (DESIGN.md 4/C16)

use crate::gen;
use crate::prng::{fnv64, sub_seed, Rng};
use crate::report::{panic_key, Paths, Violation};
use crate::shim::*;
use crate::sim::{self, Class, Env, Fault, GrammarSrc, Outcome, Vehicle, World};
use crate::spec::Spec;
use serde_json::{json, Value};
use std::collections::{BTreeMap, BTreeSet};

pub struct Ctx {
    pub corpus: Vec<GrammarSrc>,
    pub seed: u64,
    pub paths: Paths,
}

#[derive(Clone)]
pub struct Case {
    pub grammar: GrammarSrc,
    /// how the stored bytes were damaged (descriptive; the bytes are explicit)
    pub damage: String,
    pub spec: Spec,
    pub world: World,
    /// pre-existing actions file (only meaningful with force off)
    pub actions: Option<Vec<u8>>,
}

impl Case {
    pub fn to_json(&self) -> Value {
        json!({"kind": "c16", "grammar": self.grammar.to_json(), "damage": self.damage, "spec": self.spec.to_json(),
               "world": self.world.to_json(),
               "actions_hex": self.actions.as_ref().map(|a| sim::hex(a))})
    }
    pub fn from_json(v: &Value) -> Option<Case> {
        Some(Case {
            grammar: GrammarSrc::from_json(v.get("grammar")?)?,
            damage: v.get("damage").and_then(|d| d.as_str()).unwrap_or("").to_string(),
            spec: Spec::from_json(v.get("spec")?)?,
            world: World::from_json(v.get("world")?)?,
            actions: match v.get("actions_hex") {
                Some(Value::String(h)) => Some(sim::unhex(h)?),
                _ => None,
            },
        })
    }
}

#[derive(Default)]
pub struct Stats {
    pub cases: u64,
    pub by_fault: BTreeMap<String, u64>,
    pub outcomes: BTreeMap<String, u64>,
    pub err_classes: BTreeMap<String, u64>,
    pub contents: BTreeSet<u64>,
    pub nontrivial: BTreeSet<u64>,
    pub syscall_events: BTreeMap<String, u64>,
    pub syscall_faults_fired: BTreeMap<String, u64>,
    pub syscall_faults_planned: u64,
    pub io_events: u64,
    pub outside_quantifier: BTreeMap<String, u64>,
    pub samples: Vec<Value>,
    pub panic_sites: BTreeMap<String, u64>,
    pub digests: Vec<String>,
}

impl Stats {
    pub fn to_json(&self) -> Value {
        json!({
            "cases": self.cases, "by_fault": self.by_fault, "outcomes": self.outcomes, "err_classes": self.err_classes,
            "contents": self.contents.iter().collect::<Vec<_>>(), "nontrivial": self.nontrivial.iter().collect::<Vec<_>>(),
            "syscall_events": self.syscall_events, "syscall_faults_fired": self.syscall_faults_fired,
            "syscall_faults_planned": self.syscall_faults_planned, "io_events": self.io_events,
            "outside_quantifier": self.outside_quantifier, "samples": self.samples, "panic_sites": self.panic_sites,
        })
    }
}

fn bump(m: &mut BTreeMap<String, u64>, k: &str) {
    *m.entry(k.to_string()).or_insert(0) += 1;
}

/// Coarse class of a diagnostic, by what it is about (evidence only -- no
/// verdict depends on wording).
fn err_class(msg: &str) -> &'static str {
    let m = msg;
    if m.contains("IOError") || m.contains("Cannot create directories") || m.contains("Cannot write") || m.contains("os error") {
        "io"
    } else if m.contains("Syn error") {
        "syn"
    } else if m.contains("Expected") {
        "syntax"
    } else if m.contains("Unexisting symbol") {
        "undefined-symbol"
    } else if m.contains("not defined in the") {
        "terminal-not-defined"
    } else if m.contains("Recognizer not defined") {
        "recognizer-missing"
    } else if m.contains("Infinite recursion") || m.contains("infinite") {
        "infinite-recursion"
    } else if m.contains("valid Rust identifier") {
        "invalid-identifier"
    } else if m.contains("conflicts") {
        "conflicts"
    } else if m.contains("doesn't exist") {
        "not-found"
    } else if m.contains("Priority") {
        "priority"
    } else {
        "other"
    }
}

pub fn run_case(env: &Env, case: &Case) -> Outcome {
    // the pre-existing actions file is placed through the `stale` hook of the
    // world: here we need exact bytes, so write it after prepare -- run_world
    // re-creates the tree, hence a dedicated entry point:
    sim::run_world_with(env, &case.grammar, &case.spec, &case.world, case.actions.as_deref())
}

/// None = within the property; Some(key, what) = violation.
pub fn judge(ctx: &Ctx, case: &Case, o: &Outcome) -> Option<(String, String, String)> {
    match &o.class {
        Class::Ok => None,
        Class::Err(m) => {
            if m.trim().is_empty() {
                Some(("empty-diagnostic".into(), "empty-diagnostic".into(), "compiler returned an error value with an empty message".into()))
            } else {
                None
            }
        }
        Class::Panic(p) => {
            let key = panic_key(&ctx.paths, p);
            Some((
                "panic".into(),
                format!("panic|{key}"),
                format!("compiler panicked at {}:{} ({}) msg={:?} [{} {}; {}]", p.file, p.line, p.frame, p.msg.chars().take(160).collect::<String>(), case.grammar.id, case.damage, case.spec.label()),
            ))
        }
        Class::Abort(s) => Some(("abort".into(), format!("abort|{s}"), format!("compiler process died: {s} [{} {}; {}]", case.grammar.id, case.damage, case.spec.label()))),
        // The compiler neither generated a parser nor returned an error value
        // within 400x its normal running time (DESIGN.md 10, correction 1).
        Class::Timeout => Some((
            "hang".into(),
            format!("hang|content:{:016x}|{}", fnv64(&case.grammar.bytes), if case.spec.glr { "glr" } else { "lr" }),
            format!("compile did not finish (watchdog kill) [{} {}; {}]", case.grammar.id, case.damage, case.spec.label()),
        )),
    }
}

fn record(ctx: &Ctx, st: &mut Stats, case: &Case, fault_kind: &str, o: &Outcome, idx: u64, out: &mut Vec<Value>) {
    st.cases += 1;
    if crate::report::digest_on() {
        // the scratch path (with the worker's pid) appears in diagnostics
        let msg = match &o.class {
            Class::Err(m) => {
                let mut t = String::new();
                let mut rest = m.as_str();
                while let Some(i) = rest.find("/dev/shm/verif-") {
                    t.push_str(&rest[..i]);
                    let tail = &rest[i + 15..];
                    let end = tail.find('/').unwrap_or(tail.len());
                    t.push_str("<scratch>");
                    rest = &tail[end..];
                }
                t.push_str(rest);
                fnv64(t.as_bytes())
            }
            _ => 0,
        };
        let files: u64 = o.files.iter().fold(0u64, |a, (n, v)| a ^ fnv64(n.as_bytes()) ^ v.iter().fold(0u64, |x, (_, b)| x ^ fnv64(b)));
        st.digests.push(format!("{idx}|{fault_kind}|{:016x}|{}|{}|{:016x}|{:016x}|{:016x}|{}", fnv64(&case.grammar.bytes), case.spec.label(), o.class.tag(), msg, o.trace_hash(), files, o.stat.events));
    }
    bump(&mut st.by_fault, fault_kind);
    bump(&mut st.outcomes, o.class.tag());
    st.io_events += o.stat.events;
    let h = fnv64(&[&case.grammar.bytes[..], case.spec.label().as_bytes(), &case.world.faults.iter().flat_map(|f| vec![f.event as u8, f.kind, f.arg as u8]).collect::<Vec<u8>>()[..]].concat());
    st.contents.insert(h);
    if !fault_kind.starts_with("pristine") {
        st.nontrivial.insert(h);
    }
    if let Class::Err(m) = &o.class {
        bump(&mut st.err_classes, err_class(m));
    }
    if st.samples.len() < 4 && (st.cases % 977 == 1) {
        st.samples.push(json!({"grammar": case.grammar.id, "damage": case.damage, "settings": case.spec.label(),
            "syscall_faults": case.world.faults.iter().map(|f| format!("event {} errno {}", f.event, f.arg)).collect::<Vec<_>>(),
            "outcome": o.class.tag(),
            "diagnostic": match &o.class { Class::Err(m) => m.chars().take(120).collect::<String>(), _ => String::new() }}));
    }
    if let Some((class, key, what)) = judge(ctx, case, o) {
        bump(&mut st.panic_sites, &key);
        if out.len() < 60 || !out.iter().any(|v| v["key"].as_str() == Some(&key)) {
            if !out.iter().any(|v| v["key"].as_str() == Some(&key)) {
                out.push(Violation { property: "C16".into(), class, key, what, case: case.to_json(), index: idx }.to_json());
            }
        }
    }
}

// ---- storage faults -----------------------------------------------------

fn lines_of(b: &[u8]) -> Vec<&[u8]> {
    let mut v = vec![];
    let mut start = 0;
    for (i, c) in b.iter().enumerate() {
        if *c == b'\n' {
            v.push(&b[start..=i]);
            start = i + 1;
        }
    }
    if start < b.len() {
        v.push(&b[start..]);
    }
    v
}

fn join(ls: &[&[u8]]) -> Vec<u8> {
    ls.concat()
}

pub fn specs_basic() -> Vec<Spec> {
    vec![Spec::lr_default(), Spec::glr_default()]
}

/// The quantifier's configuration space: {LR, GLR} x table types x
/// prefer-shift settings, default and generic builder.
pub fn specs_product() -> Vec<Spec> {
    let mut v = vec![];
    for table in 0..3u8 {
        for ps in [false, true] {
            for psoe in [false, true] {
                for builder in [0u8, 1] {
                    let mut s = Spec::lr_default();
                    s.table = table;
                    s.prefer_shifts = ps;
                    s.prefer_shifts_over_empty = psoe;
                    s.builder = builder;
                    v.push(s);
                }
            }
        }
    }
    for builder in [0u8, 1] {
        let mut s = Spec::glr_default();
        s.builder = builder;
        v.push(s);
    }
    v
}

/// Enumerated storage-fault space of one pristine grammar.  `f` is called
/// with (fault kind, description, corrupted bytes).
fn enumerate_storage(pristine: &[u8], tier_thorough: bool, f: &mut dyn FnMut(&str, String, Vec<u8>)) {
    // torn write: every prefix length
    for k in 0..pristine.len() {
        f("torn", format!("prefix of {k} bytes"), pristine[..k].to_vec());
    }
    let ls = lines_of(pristine);
    let n = ls.len();
    // lost block: any single line, any leading run, any trailing run
    for i in 0..n {
        let mut v = ls.clone();
        v.remove(i);
        f("lost-line", format!("line {} lost", i + 1), join(&v));
    }
    for k in 2..n {
        f("lost-head", format!("first {k} lines lost"), join(&ls[k..]));
    }
    for k in 2..n {
        f("lost-tail", format!("last {k} lines lost"), join(&ls[..n - k]));
    }
    // any interior run of 2..=4 lines
    for len in 2..=4usize {
        for i in 1..n.saturating_sub(len) {
            let mut v: Vec<&[u8]> = ls[..i].to_vec();
            v.extend_from_slice(&ls[i + len..]);
            f("lost-run", format!("lines {}..{} lost", i + 1, i + len), join(&v));
        }
    }
    // duplicated block: a line written twice; runs of 2..=3 lines twice
    for i in 0..n {
        let mut v: Vec<&[u8]> = ls[..=i].to_vec();
        v.push(ls[i]);
        v.extend_from_slice(&ls[i + 1..]);
        f("dup-line", format!("line {} written twice", i + 1), join(&v));
    }
    for len in 2..=3usize {
        for i in 0..n.saturating_sub(len - 1) {
            let mut v: Vec<&[u8]> = ls[..i + len].to_vec();
            v.extend_from_slice(&ls[i..i + len]);
            v.extend_from_slice(&ls[i + len..]);
            f("dup-run", format!("lines {}..{} written twice", i + 1, i + len), join(&v));
        }
    }
    // zero-filled tail
    for k in [1usize, 2, 3, 4, 8, 16, 64, 512] {
        if k <= pristine.len() {
            let mut v = pristine.to_vec();
            let l = v.len();
            for b in &mut v[l - k..] {
                *b = 0;
            }
            f("zero-tail", format!("last {k} bytes zero-filled"), v);
        }
    }
    if tier_thorough {
        // every single bit flip
        for i in 0..pristine.len() {
            for bit in 0..8 {
                let mut v = pristine.to_vec();
                v[i] ^= 1 << bit;
                f("bit-flip", format!("bit {bit} of byte {i} flipped"), v);
            }
        }
        // a short byte run written r times (a retried partial append)
        for len in 1..=3usize {
            for off in 0..pristine.len().saturating_sub(len - 1) {
                let mut v = pristine[..off + len].to_vec();
                for _ in 0..11 {
                    v.extend_from_slice(&pristine[off..off + len]);
                }
                v.extend_from_slice(&pristine[off + len..]);
                f("dup-bytes", format!("{len} bytes at {off} written 12 times"), v);
            }
        }
    }
}

/// Seeded storage faults (sampled sub-spaces).
fn sampled_storage(rng: &mut Rng, pristine: &[u8], corpus: &[GrammarSrc]) -> (&'static str, String, Vec<u8>) {
    let n = pristine.len().max(1);
    match rng.below(5) {
        0 => {
            let i = rng.usize(n);
            let bit = rng.usize(8);
            let mut v = pristine.to_vec();
            if !v.is_empty() {
                v[i] ^= 1 << bit;
            }
            ("bit-flip", format!("bit {bit} of byte {i} flipped"), v)
        }
        1 => {
            let len = rng.range(1, 8).min(n);
            let off = rng.usize(n - len + 1);
            let times = rng.range(2, 12);
            let mut v = pristine[..(off + len).min(pristine.len())].to_vec();
            for _ in 1..times {
                v.extend_from_slice(&pristine[off..(off + len).min(pristine.len())]);
            }
            v.extend_from_slice(&pristine[(off + len).min(pristine.len())..]);
            ("dup-bytes", format!("{len} bytes at {off} written {times} times"), v)
        }
        2 => {
            // misdirected write / stale mix: prefix of this file + suffix of another
            let other = rng.pick(corpus);
            let a = rng.usize(n + 1).min(pristine.len());
            let b = rng.usize(other.bytes.len() + 1);
            let mut v = pristine[..a].to_vec();
            v.extend_from_slice(&other.bytes[b..]);
            ("splice", format!("first {a} bytes + {} from byte {b}", other.id), v)
        }
        3 => {
            // two flips
            let mut v = pristine.to_vec();
            let mut d = vec![];
            for _ in 0..2 {
                if !v.is_empty() {
                    let i = rng.usize(n);
                    let bit = rng.usize(8);
                    v[i] ^= 1 << bit;
                    d.push(format!("{i}.{bit}"));
                }
            }
            ("bit-flip2", format!("bits {} flipped", d.join(",")), v)
        }
        _ => {
            // a block overwritten by a block from elsewhere in the same file
            let len = rng.range(1, 32).min(n);
            let src = rng.usize(n - len + 1);
            let dst = rng.usize(n - len + 1);
            let mut v = pristine.to_vec();
            if !v.is_empty() {
                let blk = pristine[src..src + len].to_vec();
                v[dst..dst + len].copy_from_slice(&blk);
            }
            ("misdirected", format!("{len} bytes from {src} written at {dst}"), v)
        }
    }
}

// ---- syscall faults -----------------------------------------------------

/// See batch 0c in `work`.
pub fn reference_form_grammars() -> Vec<String> {
    const TARGETS: &[&str] = &["Num", "Kw", "'lit'", "Other", "S", "EMPTY", "STOP"];
    // X = the target
    const FORMS: &[&str] = &[
        "X", "n=X", "n?=X", "X?", "X*", "X+", "X*[Comma]", "X+[Comma]", "n=X?", "n=X*", "n=X+", "n?=X*", "n=X*[Comma]", "n?=X+[Comma]",
    ];
    // R = the reference
    const CONTEXTS: &[&str] = &["R", "R Semi", "Semi R", "Semi R Semi", "R | Semi", "R R", "Semi | R Semi", "R Semi R"];
    let mut out = vec![];
    for t in TARGETS {
        for f in FORMS {
            for c in CONTEXTS {
                let r = f.replace('X', t);
                let rhs = c.replace('R', &r);
                let mut g = format!("S: {rhs};\n");
                if *t == "Other" {
                    g.push_str("Other: Num | Id;\n");
                }
                g.push_str("terminals\nSemi: ';';\n");
                if *t == "Num" || *t == "Other" {
                    g.push_str("Num: /\\d+/;\n");
                }
                if *t == "Other" {
                    g.push_str("Id: /[a-z]+/;\n");
                }
                if *t == "Kw" {
                    g.push_str("Kw: 'kw';\n");
                }
                if *t == "'lit'" {
                    g.push_str("Lit: 'lit';\n");
                }
                if f.contains("[Comma]") {
                    g.push_str("Comma: ',';\n");
                }
                out.push(g);
            }
        }
    }
    out
}

/// See batch 0d in `work`.
/// Literal-escape product: every escape sequence the grammar-of-grammars
/// admits in a string or regex literal (a backslash followed by *any*
/// character, multi-byte ones included) x what stands before and after it x
/// quote kind x the place a literal may appear in (terminal recognizer, inline
/// terminal, meta-data value, regex recognizer).
pub fn literal_escape_grammars() -> Vec<String> {
    let escapes = ["\\'", "\\\"", "\\\\", "\\n", "\\t", "\\x", "\\0", "\\é", "\\→", "\\😀", "\\ ", "\\/", "\\\u{301}", "é", "→", "\\\\\\n", "\\\\é"];
    let pres = ["", "a", "é"];
    let posts = ["", "b", "ш"];
    let mut v = vec![];
    for e in escapes {
        for pre in pres {
            for post in posts {
                let body = format!("{pre}{e}{post}");
                for q in ['\'', '"'] {
                    // an unescaped quote of the same kind would end the literal early;
                    // that is a (valid or invalid) text like any other, keep it
                    let lit = format!("{q}{body}{q}");
                    v.push(format!("A: T;\nterminals\nT: {lit};\n"));
                    v.push(format!("A: {lit} B;\nterminals\nB: 'b';\nX: {lit};\n"));
                    v.push(format!("A: B {{doc: {lit}}};\nterminals\nB: 'b' {{note: {lit}, 5}};\n"));
                }
                v.push(format!("A: T;\nterminals\nT: /{body}/;\n"));
            }
        }
    }
    v
}

pub fn meta_data_grammars(thorough: bool) -> Vec<String> {
    const PROD: &[&str] = &["", "left", "right", "shift", "reduce", "5", "15", "nops", "nopse", "dynamic", "Kind", "left, 15", "right, 5, nops", "user: 1", "user: 'x', left"];
    const TERM: &[&str] = &["", "left", "right", "shift", "reduce", "5", "15", "prefer", "finish", "nofinish", "dynamic", "15, left", "user: 1.5"];
    let rule: &[&str] = if thorough { &["", "left", "right", "7", "nops", "nopse, 12", "Kind"] } else { &["", "right"] };
    let wrap = |m: &str| if m.is_empty() { String::new() } else { format!(" {{{m}}}") };
    let mut out = vec![];
    for rm in rule {
        for m1 in PROD {
            for m2 in PROD {
                for m3 in TERM {
                    // E: binary operator twice (shift/reduce, three-way with the
                    // longer production); A2/B2: reduce/reduce on the same input
                    let g = format!(
                        "S: E | A2 Semi | B2 Semi;\nE{}: E Plus E{} | E Plus E Plus{} | Num;\nA2: Id{};\nB2: Id{};\nterminals\nPlus: '+'{};\nSemi: ';';\nNum: /\\d+/;\nId: /[a-z]+/;\n",
                        wrap(rm), wrap(m1), wrap(m2), wrap(m1), wrap(m2), wrap(m3)
                    );
                    out.push(g);
                }
            }
        }
    }
    out
}

/// See batch 0b in `work`.
pub fn rule_shape_grammars() -> Vec<String> {
    const SHAPES: &[&str] = &[
        "Items E", "Items ',' E", "E Items", "rest=Items last=E", "E", "first=E", "EMPTY", "'none'", "E E E", "'none' E",
        "E ',' E", "E+", "E*[Comma]", "E?",
    ];
    let mut out = vec![];
    let n = SHAPES.len();
    let mut combos: Vec<Vec<usize>> = vec![];
    for a in 0..n {
        for b in 0..n {
            if a == b {
                continue;
            }
            combos.push(vec![a, b]);
            for c in 0..n {
                if c != a && c != b {
                    combos.push(vec![a, b, c]);
                }
            }
        }
    }
    for combo in combos {
        for annot in ["", "@vec\n"] {
            for elem in ["Num", "Item"] {
                let alts: Vec<String> = combo.iter().map(|i| SHAPES[*i].replace('E', elem).replace(&format!("{elem}MPTY"), "EMPTY")).collect();
                let rule = alts.join(" | ");
                let mut g = format!("S: Items;\n{annot}Items: {rule};\n");
                if elem == "Item" {
                    g.push_str("Item: Num | Id;\n");
                }
                g.push_str("terminals\nNum: /\\d+/;\n");
                if elem == "Item" {
                    g.push_str("Id: /[a-z]+/;\n");
                }
                if rule.contains("'none'") {
                    g.push_str("KwNone: 'none';\n");
                }
                if rule.contains("','") || rule.contains("[Comma]") {
                    g.push_str("Comma: ',';\n");
                }
                out.push(g);
            }
        }
    }
    out
}

fn legal_errnos(op: u8, first_of_path: bool) -> Vec<i32> {
    let _ = first_of_path;
    match op {
        OP_OPEN => vec![libc::ENOENT, libc::EACCES, libc::EMFILE, libc::ENFILE, libc::EIO, libc::ELOOP, libc::ENOMEM, libc::EISDIR, libc::ENOTDIR, libc::ENOSPC, libc::EROFS, libc::EDQUOT, libc::ETXTBSY, libc::ENAMETOOLONG],
        OP_READ => vec![libc::EIO, libc::EISDIR, libc::ENOMEM, libc::EBADF],
        OP_WRITE => vec![libc::ENOSPC, libc::EIO, libc::EDQUOT, libc::EFBIG],
        OP_CLOSE => vec![libc::EIO, libc::ENOSPC],
        OP_STAT | OP_FSTAT => vec![libc::EACCES, libc::EIO, libc::ENOENT, libc::ENAMETOOLONG, libc::ELOOP, libc::ENOTDIR, libc::ENOMEM],
        OP_MKDIR => vec![libc::EACCES, libc::ENOSPC, libc::EROFS, libc::EEXIST, libc::ENOENT, libc::EDQUOT, libc::EMLINK, libc::ENOTDIR],
        OP_LSEEK => vec![libc::ESPIPE, libc::EINVAL],
        OP_OPENDIR => vec![libc::EACCES, libc::ENOENT, libc::EMFILE, libc::ENOTDIR],
        OP_UNLINK => vec![libc::EACCES, libc::EBUSY],
        _ => vec![libc::EIO],
    }
}

fn syscall_specs() -> Vec<(Spec, bool)> {
    // (settings, with pre-existing actions file and force off)
    let mut a = Spec::lr_default();
    a.out_dirs = true;
    let mut b = Spec::lr_default();
    b.force = false;
    let mut c = Spec::glr_default();
    c.dot = true;
    vec![(Spec::lr_default(), false), (a, false), (b, true), (c, false)]
}

pub struct Plan {
    pub thorough: bool,
    pub sampled_per_grammar: u64,
    pub generated: u64,
    pub syscall_grammars: usize,
    pub rcomp_every: u64,
    /// every n-th grammar of the fault-free product batches (1 = all; the
    /// determinism self-test runs a slice)
    pub product_stride: usize,
}

pub fn work(env: &Env, ctx: &Ctx, w: usize, nw: usize, plan: &Plan) -> Value {
    let mut st = Stats::default();
    let mut viol: Vec<Value> = vec![];
    let mut counter: u64 = 0;
    let mine = |c: u64| (c % nw as u64) == w as u64;

    // 0. fault-free baseline (separate batch): every corpus grammar under the
    //    full configuration product, and seeded valid-by-construction grammars
    for g in &ctx.corpus {
        for spec in specs_product() {
            counter += 1;
            if !mine(counter) {
                continue;
            }
            let case = Case { grammar: g.clone(), damage: "none (fault-free baseline)".into(), spec, world: World::reference(), actions: None };
            let o = run_case(env, &case);
            record(ctx, &mut st, &case, "pristine", &o, counter, &mut viol);
        }
    }
    for i in 0..plan.generated {
        counter += 1;
        if !mine(counter) {
            continue;
        }
        let mut rng = Rng::new(sub_seed(ctx.seed, 16_1, i));
        let g = gen::generate(&mut rng);
        let spec = if rng.chance(1, 2) { rng.pick(&specs_product()).clone() } else { Spec::random(&mut rng) };
        let case = Case {
            grammar: GrammarSrc { id: format!("gen:{}", sub_seed(ctx.seed, 16_1, i)), stem: "gram".into(), bytes: g.text.into_bytes() },
            damage: "none (generated grammar, fault-free baseline)".into(),
            spec,
            world: World::reference(),
            actions: None,
        };
        let o = run_case(env, &case);
        record(ctx, &mut st, &case, "pristine-generated", &o, counter, &mut viol);
    }

    // 0b. rule-shape product (fault-free): one collection rule built from
    //     every ordered choice of 2 or 3 alternatives out of the shapes a
    //     user writes around the `A: A B | B` pattern, with and without
    //     `@vec`, over a terminal or a non-terminal element, LR and GLR.
    //     Type inference and action generation branch on exactly these
    //     shapes (and on their order).
    for (k, text) in rule_shape_grammars().into_iter().enumerate().filter(|(k, _)| k % plan.product_stride == 0) {
        for glr in [false, true] {
            counter += 1;
            if !mine(counter) {
                continue;
            }
            let spec = if glr { Spec::glr_default() } else { Spec::lr_default() };
            let case = Case {
                grammar: GrammarSrc { id: format!("shape:{k}"), stem: "shape".into(), bytes: text.clone().into_bytes() },
                damage: "none (rule-shape product, fault-free baseline)".into(),
                spec,
                world: World::reference(),
                actions: None,
            };
            let o = run_case(env, &case);
            record(ctx, &mut st, &case, "pristine-rule-shape", &o, counter, &mut viol);
        }
    }

    // 0c. reference-form product (fault-free): every way of referencing a
    //     symbol (bare, named, bool-named, with each repetition operator and
    //     separator modifier) x every kind of target (regex terminal, string
    //     terminal, inline string, non-terminal, the rule itself, EMPTY, STOP)
    //     x position in the production, over LR x {LALR, PAGER, RN} and GLR.
    for (k, text) in reference_form_grammars().into_iter().enumerate().filter(|(k, _)| k % plan.product_stride == 0) {
        for sp in 0..4u8 {
            counter += 1;
            if !mine(counter) {
                continue;
            }
            let mut spec = if sp == 3 { Spec::glr_default() } else { Spec::lr_default() };
            if sp < 3 {
                spec.table = sp;
            }
            let case = Case {
                grammar: GrammarSrc { id: format!("refform:{k}"), stem: "refform".into(), bytes: text.clone().into_bytes() },
                damage: "none (reference-form product, fault-free baseline)".into(),
                spec,
                world: World::reference(),
                actions: None,
            };
            let o = run_case(env, &case);
            record(ctx, &mut st, &case, "pristine-reference-form", &o, counter, &mut viol);
        }
    }
    // 0d. meta-data product (fault-free): a grammar with shift/reduce and
    //     reduce/reduce conflicts on which every production-level, rule-level
    //     and terminal-level disambiguation meta-data combination is tried,
    //     over LR (prefer-shifts on/off) and GLR.
    for (k, text) in meta_data_grammars(plan.thorough).into_iter().enumerate().filter(|(k, _)| k % plan.product_stride == 0) {
        for sp in 0..3u8 {
            counter += 1;
            if !mine(counter) {
                continue;
            }
            let mut spec = if sp == 2 { Spec::glr_default() } else { Spec::lr_default() };
            if sp < 2 {
                spec.prefer_shifts = sp == 1;
                spec.prefer_shifts_over_empty = sp == 1;
            }
            let case = Case {
                grammar: GrammarSrc { id: format!("meta:{k}"), stem: "meta".into(), bytes: text.clone().into_bytes() },
                damage: "none (meta-data product, fault-free baseline)".into(),
                spec,
                world: World::reference(),
                actions: None,
            };
            let o = run_case(env, &case);
            record(ctx, &mut st, &case, "pristine-meta-data", &o, counter, &mut viol);
        }
    }

    // 0e. literal-escape product (fault-free): see `literal_escape_grammars`
    for (k, text) in literal_escape_grammars().into_iter().enumerate() {
        for glr in [false, true] {
            counter += 1;
            if !mine(counter) {
                continue;
            }
            let spec = if glr { Spec::glr_default() } else { Spec::lr_default() };
            let case = Case {
                grammar: GrammarSrc { id: format!("escape:{k}"), stem: "escape".into(), bytes: text.clone().into_bytes() },
                damage: "none (literal-escape product, fault-free baseline)".into(),
                spec,
                world: World::reference(),
                actions: None,
            };
            let o = run_case(env, &case);
            record(ctx, &mut st, &case, "pristine-literal-escape", &o, counter, &mut viol);
        }
    }

    // 1. enumerated storage faults on every corpus grammar <= 5 KB
    let default_timeout = env.timeout_ms.get();
    for g in ctx.corpus.iter().filter(|g| g.bytes.len() <= 5 * 1024) {
        for spec in specs_basic() {
            // Calibrate the wall-clock backstop on the undamaged file: 200x
            // its compile time, at least 5 s.  (The only real-clock read that
            // feeds a verdict; it can only turn "slow" into "hang" for a
            // compile that is 200x slower than the same file undamaged.)
            let t0 = std::time::Instant::now();
            let _ = run_case(env, &Case { grammar: g.clone(), damage: "none".into(), spec: spec.clone(), world: World::reference(), actions: None });
            let ms = t0.elapsed().as_millis() as i32;
            env.timeout_ms.set((ms.saturating_mul(200)).clamp(5_000, default_timeout));
            let mut jobs: Vec<(String, String, Vec<u8>)> = vec![];
            enumerate_storage(&g.bytes, plan.thorough, &mut |k, d, b| {
                counter += 1;
                if mine(counter) {
                    jobs.push((k.to_string(), d, b));
                }
            });
            for (k, d, b) in jobs {
                let mut world = World::reference();
                // now and then through the real binary: exit-status oracle
                if plan.rcomp_every > 0 && fnv64(&b) % plan.rcomp_every == 0 {
                    world.vehicle = Vehicle::Rcomp;
                }
                let case = Case { grammar: GrammarSrc { id: g.id.clone(), stem: g.stem.clone(), bytes: b }, damage: d, spec: spec.clone(), world, actions: None };
                let o = run_case(env, &case);
                record(ctx, &mut st, &case, &k, &o, counter, &mut viol);
            }
        }
    }

    env.timeout_ms.set(default_timeout);
    // 2. seeded storage faults (all grammars, including the large one), over
    //    the configuration product
    let product = specs_product();
    for (gi, g) in ctx.corpus.iter().enumerate() {
        for j in 0..plan.sampled_per_grammar {
            counter += 1;
            if !mine(counter) {
                continue;
            }
            let mut rng = Rng::new(sub_seed(ctx.seed, 16_2, (gi as u64) << 24 | j));
            let (k, d, b) = sampled_storage(&mut rng, &g.bytes, &ctx.corpus);
            let spec = rng.pick(&product).clone();
            let case = Case { grammar: GrammarSrc { id: g.id.clone(), stem: g.stem.clone(), bytes: b }, damage: d, spec, world: World::reference(), actions: None };
            let o = run_case(env, &case);
            record(ctx, &mut st, &case, k, &o, counter, &mut viol);
        }
    }

    // 3. corrupted pre-existing actions file with force off: must be Err/Ok
    for (gi, g) in ctx.corpus.iter().enumerate().filter(|(_, g)| g.bytes.len() <= 5 * 1024) {
        counter += 1;
        if !mine(counter) {
            continue;
        }
        let mut spec = Spec::lr_default();
        spec.force = true;
        let case0 = Case { grammar: g.clone(), damage: "none".into(), spec: spec.clone(), world: World::reference(), actions: None };
        let o0 = run_case(env, &case0);
        let actions = match o0.file(&format!("{}_actions.rs", g.stem)) {
            Some(a) if o0.class == Class::Ok => a,
            _ => continue,
        };
        spec.force = false;
        let mut rng = Rng::new(sub_seed(ctx.seed, 16_3, gi as u64));
        let mut variants: Vec<(String, Vec<u8>)> = vec![];
        for _ in 0..if plan.thorough { 40 } else { 6 } {
            let k = rng.usize(actions.len());
            variants.push((format!("actions file torn at {k}"), actions[..k].to_vec()));
            let (_, d, b) = sampled_storage(&mut rng, &actions, &ctx.corpus);
            variants.push((format!("actions file: {d}"), b));
        }
        variants.push(("actions file empty".into(), vec![]));
        variants.push(("actions file is not UTF-8".into(), vec![0xff, 0xfe, 0x80, 0x00]));
        for (d, b) in variants {
            let case = Case { grammar: g.clone(), damage: d, spec: spec.clone(), world: World::reference(), actions: Some(b) };
            let o = run_case(env, &case);
            record(ctx, &mut st, &case, "actions-file", &o, counter, &mut viol);
        }
    }

    // 3b. an intact actions file to which the user added items that syn 1.0 /
    //     prettyplease 0.1 may not be able to represent or print
    const EXOTIC: &[&str] = &[
        "fn decl_only();",
        "/// Документација корисника која је довољно дугачка да пресек на шездесет бајтова падне усред знака\npub fn decl_with_docs(a: u8) -> u8;",
        "mod nested { fn decl_in_mod(); }",
        "mod nested2 { /// Ünïcödé documentation that is long enough to be cut in the middle of a character, maybe\n pub fn f(); }",
        "pub fn uses_let_else(x: Option<u8>) -> u8 { let Some(y) = x else { return 0 }; y }",
        "impl UserType { fn assoc_decl(); }",
        "pub trait UserTrait { fn h(); type A; const C: u8; }",
        "extern \"C\" { fn e(); static S: u8; }",
        "static NO_VALUE: u8;",
        "type NoDefinition;",
        "const _: () = { let _x = 1; };",
        "pub macro decl_macro_2($x:expr) { $x }",
        "auto trait AutoT {}",
        "pub fn r#type() {}",
        "pub struct Ünï { pub ö: u8 }",
        "pub fn generic_const<const N: usize>(a: [u8; N]) -> usize { N }",
        "pub fn closure_async() { let _ = async move { 1 }; }",
        "pub fn inline_const() -> u8 { const { 1 + 1 } }",
        "pub fn labeled() { 'a: loop { break 'a; } }",
        "pub fn if_let_chain(a: Option<u8>) -> bool { if let Some(x) = a && x > 1 { true } else { false } }",
        "#![allow(dead_code)]",
        "//! inner doc comment in the middle of the file",
        "pub fn half_open(r: u8) -> bool { matches!(r, 1..) }",
        "pub unsafe extern \"C\" fn ffi(_: ...) {}",
        "impl<T> !Send for W<T> {}",
        "default impl<T> Tr for T {}",
    ];
    for (gi, g) in ctx.corpus.iter().enumerate().filter(|(_, g)| g.bytes.len() <= 5 * 1024) {
        counter += 1;
        if !mine(counter) {
            continue;
        }
        if !plan.thorough && gi % 6 != 0 {
            continue;
        }
        let mut spec = Spec::lr_default();
        spec.force = true;
        let case0 = Case { grammar: g.clone(), damage: "none".into(), spec: spec.clone(), world: World::reference(), actions: None };
        let o0 = run_case(env, &case0);
        let actions = match o0.file(&format!("{}_actions.rs", g.stem)) {
            Some(a) if o0.class == Class::Ok => a,
            _ => continue,
        };
        spec.force = false;
        // the documented declaration in several alignments: whatever fixed byte
        // offset a diagnostic cuts at, one variant has a multi-byte char there
        let mut items: Vec<String> = EXOTIC.iter().map(|s| s.to_string()).collect();
        for pad in 1..4 {
            items.push(format!("/// {}Документацијакорисникакојаједовољнодугачкадапресекпаднеусредзнакабилогдедасеон\npub fn decl_aligned_{pad}(a: u8) -> u8;", "x".repeat(pad)));
            items.push(format!("/// {}→→→→→→→→→→→→→→→→→→→→→→→→→→→→→→→→→→→→→→→→→→→→→→→→\npub fn decl_arrows_{pad}();", "y".repeat(pad)));
        }
        for (k, ex) in items.iter().enumerate() {
            let ex = ex.as_str();
            for at_start in [false, true] {
                let mut b = vec![];
                if at_start {
                    b.extend_from_slice(ex.as_bytes());
                    b.push(b'\n');
                    b.extend_from_slice(&actions);
                } else {
                    b.extend_from_slice(&actions);
                    b.push(b'\n');
                    b.extend_from_slice(ex.as_bytes());
                    b.push(b'\n');
                }
                let case = Case { grammar: g.clone(), damage: format!("actions file with user item #{k} {} ({})", if at_start { "prepended" } else { "appended" }, ex.chars().take(40).collect::<String>()), spec: spec.clone(), world: World::reference(), actions: Some(b) };
                let o = run_case(env, &case);
                record(ctx, &mut st, &case, "actions-file-user-item", &o, counter, &mut viol);
            }
        }
    }

    // 3c. settings *values* that are free text: the input type.  (Beyond the
    //     property's quantifier, which fixes algorithm, table type and
    //     prefer-shift settings; cheap, and a panic here is still a panic.)
    const INPUT_TYPES: &[&str] = &[
        "Vec<", "&", "u8;", "not a type", "Vec<u8>>", "str,", "((", "[u8", "", "  ", "str str", "dyn", "impl", "fn()", "!", "_", "&'a str",
        "*const u8", "[u8; 4]", "Vec<u8>", "std::string::String", "u8 as", "<", "'a", "r#type", "1", "\"str\"", "str // c", "(str, u8)", "[str]",
    ];
    for (gi, g) in ctx.corpus.iter().enumerate().filter(|(_, g)| g.bytes.len() <= 1024) {
        counter += 1;
        if !mine(counter) || gi % 9 != 0 {
            continue;
        }
        for it in INPUT_TYPES {
            for custom in [false, true] {
                for glr in [false, true] {
                    let mut spec = if glr { Spec::glr_default() } else { Spec::lr_default() };
                    spec.custom_lexer = custom;
                    spec.input_type = it.to_string();
                    let case = Case { grammar: g.clone(), damage: format!("none; setting input_type = {it:?}"), spec, world: World::reference(), actions: None };
                    let o = run_case(env, &case);
                    record(ctx, &mut st, &case, "setting-input-type", &o, counter, &mut viol);
                }
            }
        }
    }

    // 4. syscall failure enumeration: every I/O event of the workload x every
    //    errno legal for its call class
    for (gi, g) in ctx.corpus.iter().enumerate().filter(|(_, g)| g.bytes.len() <= 5 * 1024).take(plan.syscall_grammars) {
        for (si, (spec, with_actions)) in syscall_specs().into_iter().enumerate() {
            counter += 1;
            if !mine(counter) {
                continue;
            }
            let _ = (gi, si);
            let mut actions = None;
            if with_actions {
                let mut s2 = spec.clone();
                s2.force = true;
                let c0 = Case { grammar: g.clone(), damage: "none".into(), spec: s2, world: World::reference(), actions: None };
                let o0 = run_case(env, &c0);
                actions = o0.file(&format!("{}_actions.rs", g.stem));
            }
            let base = Case { grammar: g.clone(), damage: "none".into(), spec: spec.clone(), world: World::reference(), actions: actions.clone() };
            let o = run_case(env, &base);
            record(ctx, &mut st, &base, "pristine", &o, counter, &mut viol);
            let events = o.events.clone();
            for e in &events {
                bump(&mut st.syscall_events, OP_NAMES[(e.op as usize).min(10)]);
                for errno in legal_errnos(e.op, false) {
                    let mut world = World::reference();
                    world.faults.push(Fault { event: e.seq as u64, kind: F_ERRNO, arg: errno });
                    let case = Case { grammar: g.clone(), damage: format!("syscall fault: event {} ({}) fails with errno {}", e.seq, OP_NAMES[(e.op as usize).min(10)], errno), spec: spec.clone(), world, actions: actions.clone() };
                    let o = run_case(env, &case);
                    st.syscall_faults_planned += 1;
                    if o.stat.errno > 0 {
                        bump(&mut st.syscall_faults_fired, OP_NAMES[(e.op as usize).min(10)]);
                    }
                    record(ctx, &mut st, &case, "syscall", &o, counter, &mut viol);
                }
                if e.op == OP_READ {
                    // the file is truncated by someone else after it was
                    // stat'ed: this and every later read returns 0
                    let mut world = World::reference();
                    world.faults.push(Fault { event: e.seq as u64, kind: F_EOF, arg: 0 });
                    let case = Case { grammar: g.clone(), damage: format!("syscall fault: from event {} on, read returns 0 (file truncated after stat)", e.seq), spec: spec.clone(), world, actions: actions.clone() };
                    let o = run_case(env, &case);
                    st.syscall_faults_planned += 1;
                    bump(&mut st.syscall_faults_fired, "read-eof");
                    record(ctx, &mut st, &case, "syscall-eof", &o, counter, &mut viol);
                }
            }
        }
    }
    let digests = std::mem::take(&mut st.digests);
    json!({"stats": st.to_json(), "violations": viol, "digests": digests})
}

pub fn still_fails(env: &Env, ctx: &Ctx, case: &Case, key: &str) -> bool {
    let o = run_case(env, case);
    match judge(ctx, case, &o) {
        // the key of a hang names the content, which shrinking changes: the
        // class is what must persist
        Some((class, k, _)) => {
            if key.starts_with("hang|") {
                class == "hang"
            } else {
                k == key
            }
        }
        None => false,
    }
}

/// Greedy shrink of the damaged file while the same call site panics.
pub fn minimise(env: &Env, ctx: &Ctx, case: &Case, key: &str) -> Case {
    let mut cur = case.clone();
    let hang = key.starts_with("hang|");
    let saved_timeout = env.timeout_ms.get();
    if hang {
        // every step that still hangs costs a full backstop: shrink with a
        // short one (the shrunk grammars compile in milliseconds) and few steps
        env.timeout_ms.set(saved_timeout.min(5_000));
    }
    // settings towards default
    let d = if cur.spec.glr { Spec::glr_default() } else { Spec::lr_default() };
    if cur.spec != d {
        let mut c = cur.clone();
        c.spec = d;
        if still_fails(env, ctx, &c, key) {
            cur = c;
        }
    }
    if cur.world.vehicle != Vehicle::Thread {
        let mut c = cur.clone();
        c.world.vehicle = Vehicle::Thread;
        if still_fails(env, ctx, &c, key) {
            cur = c;
        }
    }
    if cur.actions.is_some() {
        return cur;
    }
    // drop lines
    let mut budget = if hang { 40 } else { 400 };
    loop {
        let ls: Vec<Vec<u8>> = lines_of(&cur.grammar.bytes).into_iter().map(|l| l.to_vec()).collect();
        let mut changed = false;
        let mut i = 0;
        let mut ls = ls;
        while i < ls.len() && budget > 0 {
            budget -= 1;
            let mut l2 = ls.clone();
            l2.remove(i);
            let mut c = cur.clone();
            c.grammar.bytes = l2.concat();
            if still_fails(env, ctx, &c, key) {
                ls = l2;
                cur = c;
                changed = true;
            } else {
                i += 1;
            }
        }
        if !changed || budget == 0 {
            break;
        }
    }
    // drop "clauses": pieces between separators of the grammar language, so
    // that the result stays readable and close to the original cause
    let mut budget = if hang { 40 } else { 600 };
    for seps in [&b";"[..], &b"|"[..], &b" \n"[..]] {
        let mut i = 0;
        loop {
            // split into pieces that end with a separator
            let bytes = cur.grammar.bytes.clone();
            let mut pieces: Vec<&[u8]> = vec![];
            let mut start = 0;
            for (k, c) in bytes.iter().enumerate() {
                if seps.contains(c) {
                    pieces.push(&bytes[start..=k]);
                    start = k + 1;
                }
            }
            if start < bytes.len() {
                pieces.push(&bytes[start..]);
            }
            if i >= pieces.len() || budget == 0 {
                break;
            }
            budget -= 1;
            let mut p2 = pieces.clone();
            p2.remove(i);
            let mut c = cur.clone();
            c.grammar.bytes = p2.concat();
            if still_fails(env, ctx, &c, key) {
                cur = c;
            } else {
                i += 1;
            }
        }
    }
    cur.damage = format!("minimised from: {}", case.damage);
    env.timeout_ms.set(saved_timeout);
    cur
}
