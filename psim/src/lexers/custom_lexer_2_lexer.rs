use super::custom_lexer_2::{State, TokenKind};
use rustemo::{Context, LRContext, Lexer, Position, Result, SourceSpan, Token};
use std::iter;

// ANCHOR: custom-lexer
/// We are parsing a slice of bytes.
pub type Input = [u8];
pub type Ctx<'i> = LRContext<'i, Input, State, TokenKind>;

pub struct MyCustomLexer2();

impl MyCustomLexer2 {
    pub fn new() -> Self {
        MyCustomLexer2()
    }
}

/// In this custom lexer we are not recognizing a full VarInts but only its
/// constituents: MSBByte (if highest bit is set), NonMSBByte (highest bit is
/// not set). How these bytes is organized into VarInts is defined by the
/// grammar and the transformation to a numeric value is done in actions.
impl<'i> Lexer<'i, Ctx<'i>, State, TokenKind> for MyCustomLexer2 {
    type Input = Input;

    fn next_tokens(
        &self,
        context: &mut Ctx<'i>,
        input: &'i Self::Input,
        _token_kinds: Vec<(TokenKind, bool)>,
    ) -> Box<dyn Iterator<Item = Token<'i, Self::Input, TokenKind>> + 'i> {
        let value;
        let kind: TokenKind;
        if context.position().pos >= input.len() {
            value = &[][..];
            kind = TokenKind::STOP;
        } else {
            value = &input[context.position().pos..=context.position().pos];
            if value[0] & 0b1000_0000 != 0 {
                kind = TokenKind::MSBByte;
            } else {
                kind = TokenKind::NonMSBByte;
            };
        }

        Box::new(iter::once(Token {
            kind,
            value,
            span: SourceSpan {
                start: context.position(),
                end: context.position(),
            },
        }))
    }
}
// ANCHOR_END: custom-lexer
