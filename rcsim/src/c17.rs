//! C17 -- parser generation is deterministic and the same through CLI and API.
//!
//! For each (grammar, settings) the reference world yields an outcome class
//! and the bytes of `<stem>.rs` / `<stem>_actions.rs`; every other world
//! (hash seed, directory order, clock, pid, tty, env noise, cwd, stale
//! outputs, neighbours compiled before, project path, vehicle = thread /
//! process_dir / rcomp / rcomp <dir>, one benign I/O fault) must yield the
//! same class and byte-identical files.

use crate::corpus;
use crate::gen;
use crate::prng::{fnv64, sub_seed, Rng};
use crate::report::Violation;
use crate::shim::{F_EINTR, F_SHORT};
use crate::sim::{self, Class, Env, Fault, GrammarSrc, Outcome, Vehicle, World};
use crate::spec::Spec;
use serde_json::{json, Value};
use std::collections::{BTreeMap, BTreeSet};

pub struct Ctx {
    pub corpus: Vec<GrammarSrc>,
    pub neighbours: Vec<GrammarSrc>,
    pub seed: u64,
}

#[derive(Clone)]
pub struct Case {
    pub grammar: GrammarSrc,
    pub spec: Spec,
    pub worlds: Vec<World>,
    pub origin: String,
    /// != 0: before running, a pre-existing actions file (a fresh generation
    /// with a seeded third of its items deleted) is attached to every world
    /// (not serialised: the attached bytes are part of the worlds)
    pub existing_seed: u64,
}

impl Case {
    pub fn to_json(&self) -> Value {
        json!({"kind": "c17", "origin": self.origin, "grammar": self.grammar.to_json(), "spec": self.spec.to_json(),
               "worlds": self.worlds.iter().map(|w| w.to_json()).collect::<Vec<_>>()})
    }
    pub fn from_json(v: &Value) -> Option<Case> {
        Some(Case {
            grammar: GrammarSrc::from_json(v.get("grammar")?)?,
            spec: Spec::from_json(v.get("spec")?)?,
            worlds: v.get("worlds")?.as_array()?.iter().map(World::from_json).collect::<Option<Vec<_>>>()?,
            origin: v.get("origin").and_then(|o| o.as_str()).unwrap_or("").to_string(),
            existing_seed: 0,
        })
    }
}

/// User state for the worlds of a case: the actions file of a fresh
/// generation with a seeded third of the generated items deleted.  Same bytes
/// in every world; what differs between the worlds is everything else
/// (timestamps included).
pub fn attach_existing(env: &Env, case: &mut Case, st: &mut Stats) {
    let m = match crate::c18::model(env, &case.grammar, &case.spec) {
        Some(m) => m,
        None => return,
    };
    st.compiles += 1;
    let mut rng = Rng::new(case.existing_seed);
    let mut items = vec![];
    for i in m.u.iter() {
        let generated = !matches!(i, syn::Item::Use(_)) && crate::c18::ns_name(i).map(|n| !["Input", "Ctx", "Token"].contains(&n.1.as_str())).unwrap_or(false);
        if generated && rng.chance(1, 3) {
            continue;
        }
        items.push(i.clone());
    }
    let text = prettyplease::unparse(&syn::File { shebang: None, attrs: vec![], items });
    for w in case.worlds.iter_mut() {
        w.existing_actions = Some(text.clone().into_bytes());
    }
    bump(&mut st.world_dims, "cases_with_existing_actions_file");
}

/// A seeded world.  `allow_rcomp`: include the spawned-binary vehicles.
pub fn random_world(rng: &mut Rng, ctx: &Ctx, spec: &Spec, allow_rcomp: bool) -> World {
    let mut w = World::reference();
    w.hash_seed = rng.next_u64() | 1;
    w.dir_seed = rng.next_u64();
    w.epoch = (rng.below(4_000_000_000) as i64) - 1_000_000;
    w.pid = 2 + rng.below(4_000_000) as u32;
    w.tty = rng.chance(1, 2);
    w.env = sim::env_noise(rng);
    w.cwd = *rng.pick(&[0u8, 0, 1, 2]);
    w.rel_path = w.cwd == 0 && rng.chance(1, 2);
    w.proj_name = rng.pick(&["proj", "p", "my project", "проект", "a.b-c_d", "proj-with-a-rather-long-directory-name-0123456789"]).to_string();
    w.stale = *rng.pick(&[0u8, 0, 1, 2, 3]);
    let v = rng.below(if allow_rcomp { 10 } else { 7 });
    w.vehicle = match v {
        0..=4 => Vehicle::Thread,
        5 | 6 => Vehicle::ProcessDir,
        7 | 8 => Vehicle::Rcomp,
        _ => Vehicle::RcompDir,
    };
    w.env_defaults = spec.out_dirs && spec.out_only == 0 && rng.chance(1, 3);
    match w.vehicle {
        Vehicle::Thread => {
            let n = rng.usize(4);
            for _ in 0..n {
                let g = rng.pick(&ctx.corpus).clone();
                let s = Spec::random(rng);
                w.neighbours.push((g, s));
            }
        }
        Vehicle::ProcessDir | Vehicle::RcompDir => {
            let mut nb = ctx.neighbours.clone();
            rng.shuffle(&mut nb);
            let n = rng.usize(nb.len() + 1);
            for g in nb.into_iter().take(n) {
                w.neighbours.push((g, spec.clone()));
            }
        }
        Vehicle::Rcomp => {}
    }
    if rng.chance(1, 3) {
        // one benign fault somewhere in the ~20 I/O events of a compile
        let event = rng.below(24);
        if rng.chance(1, 2) {
            w.faults.push(Fault { event, kind: F_EINTR, arg: 0 });
        } else {
            w.faults.push(Fault { event, kind: F_SHORT, arg: 1 + rng.below(64) as i32 });
        }
    }
    w.mtime_mode = *rng.pick(&[0u8, 0, 1, 2, 3]);
    w
}

/// Settings that the dir vehicles cannot express per grammar are fine: the
/// same spec is applied to the whole directory.  What must be avoided is a
/// spec under which a *neighbour* fails (process_dir stops at the first
/// error): the neighbours have recognizers, so they need nothing special.
fn spec_for(rng: &mut Rng, family: u64) -> Spec {
    match family {
        0 => Spec::lr_default(),
        1 => Spec::glr_default(),
        2 => {
            let mut s = Spec::lr_default();
            s.builder = 1;
            s.arrays = true;
            s
        }
        3 => {
            let mut s = Spec::glr_default();
            s.loc_info = true;
            s.out_dirs = true;
            s
        }
        _ => Spec::random(rng),
    }
}

/// Every option of `rcomp --help` that maps to a setting, as a single toggle
/// away from the default (flag sweep, DESIGN.md 4/C17 oracle 2).
pub const TOGGLES: [&str; 26] = [
    "force-off", "dot", "noactions", "trace", "out-dirs", "out-only-o", "out-only-a", "prefer-shifts", "no-shifts-over-empty", "table-lalr", "table-lalr-rn",
    "glr", "arrays", "lexer-custom", "input-type-bytes", "builder-generic", "builder-custom", "builder-loc-info",
    "most-specific-off", "longest-match-off", "glr-grammar-order-on", "fancy-regex", "partial-parse", "no-skip-ws", "print-table",
    "glr-arrays-loc-info",
];

pub fn apply_toggle(s: &mut Spec, t: &str) {
    match t {
        "force-off" => s.force = false,
        "dot" => s.dot = true,
        "noactions" => s.actions = false,
        "trace" => s.trace = true,
        "out-dirs" => s.out_dirs = true,
        "out-only-o" => {
            s.out_dirs = true;
            s.out_only = 1;
        }
        "out-only-a" => {
            s.out_dirs = true;
            s.out_only = 2;
        }
        "prefer-shifts" => s.prefer_shifts = true,
        "no-shifts-over-empty" => s.prefer_shifts_over_empty = false,
        "table-lalr" => s.table = 0,
        "table-lalr-rn" => s.table = 2,
        "glr" => *s = Spec { out_dirs: s.out_dirs, out_only: s.out_only, ..Spec::glr_default() },
        "arrays" => s.arrays = true,
        "lexer-custom" => s.custom_lexer = true,
        "input-type-bytes" => {
            s.custom_lexer = true;
            s.input_type = "[u8]".into();
        }
        "builder-generic" => s.builder = 1,
        "builder-custom" => s.builder = 2,
        "builder-loc-info" => s.loc_info = true,
        "most-specific-off" => s.most_specific = false,
        "longest-match-off" => s.longest_match = false,
        "glr-grammar-order-on" => {
            *s = Spec::glr_default();
            s.grammar_order = true;
        }
        "fancy-regex" => s.fancy = true,
        "partial-parse" => s.partial = true,
        "no-skip-ws" => s.skip_ws = false,
        "print-table" => s.print_table = true,
        "glr-arrays-loc-info" => {
            *s = Spec::glr_default();
            s.arrays = true;
            s.loc_info = true;
        }
        _ => {}
    }
}

/// Grammars of the flag sweep: small corpus files, evenly spread.
pub fn sweep_grammars(ctx: &Ctx) -> Vec<GrammarSrc> {
    // grammars on which table type / prefer-shift flags are known to matter,
    // if the repository still has them, then an even spread
    let preferred = ["special/lalr_reduce_reduce_conflict/", "ambiguity/reduce_empty_1", "ambiguity/reduce_empty_2", "special/pager_g1/", "special/lalrpop768/", "ambiguity/prio_assoc_prod"];
    let mut out: Vec<GrammarSrc> = vec![];
    for p in preferred {
        if let Some(g) = ctx.corpus.iter().find(|g| g.id.starts_with("repo:") && g.id.contains(p)) {
            out.push(g.clone());
        }
    }
    let small: Vec<&GrammarSrc> = ctx.corpus.iter().filter(|g| g.bytes.len() < 1500 && g.id.starts_with("repo:")).collect();
    let step = (small.len() / 12).max(1);
    for g in small.into_iter().step_by(step) {
        if out.len() >= 16 {
            break;
        }
        if !out.iter().any(|x| x.id == g.id) {
            out.push(g.clone());
        }
    }
    out
}

pub fn gen_case(ctx: &Ctx, stream: u64, idx: u64, nworlds: usize, allow_rcomp: bool) -> Case {
    if stream == 2 || stream == 3 {
        // flag sweep: one toggle (stream 2) or a pair (stream 3), API reference
        // world against the real rcomp binary, everything else identical
        let gs = sweep_grammars(ctx);
        let g = gs[(idx % gs.len() as u64) as usize].clone();
        let k = (idx / gs.len() as u64) as usize;
        let mut spec = Spec::lr_default();
        let label;
        if stream == 2 {
            let t = TOGGLES[k % TOGGLES.len()];
            apply_toggle(&mut spec, t);
            label = t.to_string();
        } else {
            let n = TOGGLES.len();
            let (a, b) = (k % n, (k / n) % n);
            apply_toggle(&mut spec, TOGGLES[a]);
            apply_toggle(&mut spec, TOGGLES[b]);
            label = format!("{}+{}", TOGGLES[a], TOGGLES[b]);
        }
        // documented preconditions of Settings
        if !spec.glr {
            spec.grammar_order = true;
        }
        let mut w = World::reference();
        w.vehicle = if idx % 5 == 4 { Vehicle::RcompDir } else { Vehicle::Rcomp };
        w.hash_seed = sub_seed(ctx.seed, 17_2, idx) | 1;
        return Case { grammar: g, spec, worlds: vec![World::reference(), w], origin: format!("flag sweep: {label}"), existing_seed: 0 };
    }
    if stream == 4 {
        // user state + timestamps: force off, an incomplete actions file in
        // place, worlds that differ in the age of the files (and the rest)
        let ss = sub_seed(ctx.seed, 17_4, idx);
        let mut rng = Rng::new(ss);
        let n = ctx.corpus.len() as u64;
        let g = ctx.corpus[(idx % n) as usize].clone();
        let mut spec = if (idx / n) % 2 == 0 { Spec::lr_default() } else { Spec::glr_default() };
        spec.force = false;
        spec.loc_info = rng.chance(1, 3);
        // the actions file stays next to the grammar: the one place where
        // every vehicle and path form looks for it
        spec.out_dirs = rng.chance(1, 3);
        spec.out_only = 1;
        let mut worlds = vec![World::reference()];
        for k in 0..nworlds {
            let mut w = random_world(&mut rng, ctx, &spec, allow_rcomp);
            w.mtime_mode = 1 + (k % 3) as u8;
            w.stale = 0;
            worlds.push(w);
        }
        return Case { grammar: g, spec, worlds, origin: format!("existing actions file + timestamps idx={idx} sub_seed={ss}"), existing_seed: rng.next_u64() | 1 };
    }
    let ss = sub_seed(ctx.seed, stream, idx);
    let mut rng = Rng::new(ss);
    let (grammar, spec, origin) = if stream == 0 {
        let n = ctx.corpus.len() as u64;
        let g = ctx.corpus[(idx % n) as usize].clone();
        let spec = spec_for(&mut rng, idx / n);
        (g, spec, format!("corpus idx={idx} sub_seed={ss}"))
    } else {
        let g = gen::generate(&mut rng);
        let stem = rng.pick(&["gram", "calc", "my_lang", "g2"]).to_string();
        let spec = if rng.chance(1, 4) { Spec::glr_default() } else { Spec::random(&mut rng) };
        (
            GrammarSrc { id: format!("gen:{ss}"), stem, bytes: g.text.into_bytes() },
            spec,
            format!("generated idx={idx} sub_seed={ss} tags={}", g.tags.join(",")),
        )
    };
    let mut worlds = vec![World::reference()];
    for _ in 0..nworlds {
        worlds.push(random_world(&mut rng, ctx, &spec, allow_rcomp));
    }
    let existing_seed = if !spec.force && spec.actions && spec.builder == 0 && !spec.actions_in_out() && rng.chance(1, 2) { rng.next_u64() | 1 } else { 0 };
    Case { grammar, spec, worlds, origin, existing_seed }
}

#[derive(Default)]
pub struct Stats {
    pub cases: u64,
    pub compiles: u64,
    pub compared_ok: u64,
    pub compared_err: u64,
    pub excluded_panics: u64,
    pub inconclusive: u64,
    pub classes: BTreeMap<String, u64>,
    pub vehicles: BTreeMap<String, u64>,
    pub faults_fired: BTreeMap<String, u64>,
    pub faults_planned: u64,
    pub io_events: u64,
    pub clock_reads: u64,
    pub pid_reads: u64,
    pub tty_reads: u64,
    pub dirs_permuted: u64,
    pub canaries: BTreeSet<u64>,
    pub traces: BTreeSet<u64>,
    pub pairs: BTreeSet<u64>,
    pub nontrivial_pairs: BTreeSet<u64>,
    pub world_dims: BTreeMap<String, u64>,
    pub samples: Vec<Value>,
    pub nb_ok: BTreeMap<u64, bool>,
    pub digests: Vec<String>,
    pub flags_swept: BTreeMap<String, u64>,
    pub flag_reach: BTreeMap<String, u64>,
    pub base_outputs: BTreeMap<u64, u64>,
}

impl Stats {
    pub fn to_json(&self) -> Value {
        json!({
            "cases": self.cases, "compiles": self.compiles, "compared_ok": self.compared_ok,
            "compared_err": self.compared_err, "excluded_panics": self.excluded_panics,
            "inconclusive": self.inconclusive, "classes": self.classes, "vehicles": self.vehicles,
            "faults_fired": self.faults_fired, "faults_planned": self.faults_planned,
            "io_events": self.io_events, "clock_reads": self.clock_reads, "pid_reads": self.pid_reads,
            "tty_reads": self.tty_reads, "dirs_permuted": self.dirs_permuted,
            "canaries": self.canaries.iter().collect::<Vec<_>>(),
            "traces": self.traces.iter().collect::<Vec<_>>(),
            "pairs": self.pairs.iter().collect::<Vec<_>>(),
            "nontrivial_pairs": self.nontrivial_pairs.iter().collect::<Vec<_>>(),
            "world_dims": self.world_dims,
            "flags_swept": self.flags_swept, "flag_reach": self.flag_reach,
            "samples": self.samples,
            "digests": self.digests,
        })
    }
}

fn bump(m: &mut BTreeMap<String, u64>, k: &str) {
    *m.entry(k.to_string()).or_insert(0) += 1;
}

fn vehicle_name(v: Vehicle) -> &'static str {
    match v {
        Vehicle::Thread => "thread",
        Vehicle::ProcessDir => "process_dir",
        Vehicle::Rcomp => "rcomp",
        Vehicle::RcompDir => "rcomp_dir",
    }
}

pub struct Diff {
    pub class: String,
    pub what: String,
}

/// Compares the outcome of a world against the reference outcome.
/// None = agrees (or not comparable: see `comparable`).
pub fn compare(case: &Case, reference: &Outcome, other: &Outcome) -> Option<Diff> {
    let rt = reference.class.tag();
    let ot = other.class.tag();
    if rt != ot {
        let detail = |c: &Class| match c {
            Class::Err(m) => m.chars().take(200).collect::<String>(),
            _ => String::new(),
        };
        return Some(Diff {
            class: "class-differs".into(),
            what: format!("outcome class {rt} in the reference world but {ot} in the other world [{}|{}]", detail(&reference.class), detail(&other.class)),
        });
    }
    if rt != "ok" {
        return None;
    }
    let parser = format!("{}.rs", case.grammar.stem);
    let actions = format!("{}_actions.rs", case.grammar.stem);
    let mut names = vec![(parser, "parser")];
    if case.spec.builder == 0 && case.spec.actions {
        names.push((actions, "actions"));
    }
    for (name, kind) in names {
        let a = reference.file(&name);
        let b = other.file(&name);
        if a != b {
            let what = match (&a, &b) {
                (Some(a), Some(b)) => {
                    let pos = a.iter().zip(b.iter()).position(|(x, y)| x != y).unwrap_or(a.len().min(b.len()));
                    let ctx = |v: &Vec<u8>| String::from_utf8_lossy(&v[pos.saturating_sub(30)..(pos + 50).min(v.len())]).to_string();
                    format!("{kind} file differs at byte {pos} (len {} vs {}): ...{:?}... vs ...{:?}...", a.len(), b.len(), ctx(a), ctx(b))
                }
                (None, Some(_)) => format!("{kind} file missing in the reference world only"),
                (Some(_), None) => format!("{kind} file missing in the other world only"),
                _ => unreachable!(),
            };
            return Some(Diff { class: format!("bytes-differ:{kind}"), what });
        }
    }
    None
}

fn hard_failure(c: &Class) -> bool {
    matches!(c, Class::Panic(_) | Class::Abort(_) | Class::Timeout)
}

pub fn violation_key(case: &Case, class: &str) -> String {
    let gid = if case.grammar.id.starts_with("gen:") || case.grammar.id.starts_with("min:") {
        format!("content:{:016x}", fnv64(&case.grammar.bytes))
    } else {
        case.grammar.id.clone()
    };
    format!("{class}|{gid}")
}

/// Runs all worlds of a case; returns violations (each as a two-world case).
pub fn check_case(env: &Env, case: &Case, idx: u64, st: &mut Stats) -> Vec<Violation> {
    let mut out = vec![];
    st.cases += 1;
    let pair_hash = fnv64(format!("{}|{:?}|{}", fnv64(&case.grammar.bytes), case.spec, case.grammar.stem).as_bytes());
    st.pairs.insert(pair_hash);
    let reference = sim::run_world(env, &case.grammar, &case.spec, &case.worlds[0]);
    st.compiles += 1;
    bump(&mut st.classes, reference.class.tag());
    if hard_failure(&reference.class) {
        st.excluded_panics += 1;
        return out;
    }
    if let Some(label) = case.origin.strip_prefix("flag sweep: ") {
        bump(&mut st.flags_swept, label);
        // reach: does the toggle change what the API writes for this grammar?
        if reference.class.tag() == "ok" {
            let gk = fnv64(&case.grammar.bytes);
            let base_hash = match st.base_outputs.get(&gk) {
                Some(h) => *h,
                None => {
                    let b = sim::run_world(env, &case.grammar, &Spec::lr_default(), &World::reference());
                    st.compiles += 1;
                    let h = b.files.iter().filter(|(n, _)| n.ends_with(".rs")).fold(0u64, |a, (n, v)| a ^ fnv64(n.as_bytes()) ^ v.iter().fold(0u64, |x, (_, bb)| x ^ fnv64(bb)));
                    st.base_outputs.insert(gk, h);
                    h
                }
            };
            let this = reference.files.iter().filter(|(n, _)| n.ends_with(".rs")).fold(0u64, |a, (n, v)| a ^ fnv64(n.as_bytes()) ^ v.iter().fold(0u64, |x, (_, bb)| x ^ fnv64(bb)));
            if this != base_hash {
                bump(&mut st.flag_reach, label);
            }
        }
    }
    let mut compared_worlds = 0;
    let hash_opt = |b: Option<Vec<u8>>| b.map(|b| fnv64(&b)).unwrap_or(0);
    let mut digest = format!("{idx}|{:016x}|{}|ref:{}:{:016x}:{:016x}:{:016x}", fnv64(&case.grammar.bytes), case.spec.label(), reference.class.tag(), reference.trace_hash(), hash_opt(reference.file(&format!("{}.rs", case.grammar.stem))), hash_opt(reference.file(&format!("{}_actions.rs", case.grammar.stem))));
    for w in &case.worlds[1..] {
        // Directory neighbours must compile alone under this spec, otherwise
        // process_dir stopping at their error would be blamed on the target.
        let mut w = w.clone();
        if matches!(w.vehicle, Vehicle::ProcessDir | Vehicle::RcompDir) {
            let mut keep = vec![];
            for (g, s) in w.neighbours.drain(..) {
                let k = fnv64(format!("{}|{:?}", g.stem, s).as_bytes());
                let ok = match st.nb_ok.get(&k) {
                    Some(ok) => *ok,
                    None => {
                        let o = sim::run_world(env, &g, &s, &World::reference());
                        st.compiles += 1;
                        let ok = o.class == Class::Ok;
                        st.nb_ok.insert(k, ok);
                        ok
                    }
                };
                if ok {
                    keep.push((g, s));
                }
            }
            w.neighbours = keep;
        }
        // Aim the benign fault: in the thread vehicle the I/O event sequence is
        // the reference world's, so pick an event on which the fault kind can
        // actually fire (open/read/write) instead of a blind event number.
        if w.vehicle == Vehicle::Thread && !w.faults.is_empty() {
            let applicable: Vec<u32> = reference.events.iter().filter(|e| e.op == crate::shim::OP_READ || e.op == crate::shim::OP_WRITE || (e.op == crate::shim::OP_OPEN && w.faults[0].kind == F_EINTR)).map(|e| e.seq).collect();
            if !applicable.is_empty() {
                let pick = applicable[(w.faults[0].event as usize ^ (w.hash_seed as usize >> 7)) % applicable.len()];
                w.faults[0].event = pick as u64;
            }
        }
        let w = &w;
        let o = sim::run_world(env, &case.grammar, &case.spec, w);
        st.compiles += 1 + if w.vehicle == Vehicle::Thread { w.neighbours.len() as u64 } else { 0 };
        bump(&mut st.vehicles, vehicle_name(w.vehicle));
        bump(&mut st.classes, o.class.tag());
        st.io_events += o.stat.events;
        st.clock_reads += o.stat.clock_reads;
        st.pid_reads += o.stat.pid_reads;
        st.tty_reads += o.stat.tty_reads;
        st.dirs_permuted += o.stat.dirs_permuted;
        st.faults_planned += w.faults.len() as u64;
        if o.stat.eintr > 0 {
            *st.faults_fired.entry("eintr".into()).or_insert(0) += o.stat.eintr;
        }
        if o.stat.short > 0 {
            *st.faults_fired.entry("short".into()).or_insert(0) += o.stat.short;
        }
        if o.canary != 0 {
            st.canaries.insert(o.canary);
        }
        st.traces.insert(o.trace_hash());
        if crate::report::digest_on() {
            digest.push_str(&format!("|w:{}:{:016x}:{:016x}:{:016x}:{:016x}:{}", o.class.tag(), o.trace_hash(), hash_opt(o.file(&format!("{}.rs", case.grammar.stem))), hash_opt(o.file(&format!("{}_actions.rs", case.grammar.stem))), o.canary, o.stat.events));
        }
        for (dim, on) in [
            ("tty", w.tty), ("env_defaults", w.env_defaults), ("cwd_other", w.cwd != 0), ("rel_path", w.rel_path),
            ("stale", w.stale != 0), ("neighbours", !w.neighbours.is_empty()), ("trace_env", w.env.iter().any(|e| e.0 == "RUSTEMO_TRACE")),
            ("proj_renamed", w.proj_name != "proj"), ("grammar_years_older_than_outputs", w.mtime_mode == 1), ("outputs_years_older_than_grammar", w.mtime_mode == 2),
            ("all_files_same_second", w.mtime_mode == 3), ("existing_actions_file", w.existing_actions.is_some() && !case.spec.force),
        ] {
            if on {
                bump(&mut st.world_dims, dim);
            }
        }
        if hard_failure(&o.class) {
            st.excluded_panics += 1;
            continue;
        }
        if o.class.tag() == "ok" {
            st.compared_ok += 1;
        } else {
            st.compared_err += 1;
        }
        compared_worlds += 1;
        if let Some(d) = compare(case, &reference, &o) {
            let two = Case { grammar: case.grammar.clone(), spec: case.spec.clone(), worlds: vec![case.worlds[0].clone(), w.clone()], origin: case.origin.clone(), existing_seed: 0 };
            out.push(Violation {
                property: "C17".into(),
                key: violation_key(&two, &d.class),
                class: d.class,
                what: format!("{} [{}; {}; vehicle {}]", d.what, case.grammar.id, case.spec.label(), vehicle_name(w.vehicle)),
                case: two.to_json(),
                index: idx,
            });
        }
    }
    if crate::report::digest_on() {
        st.digests.push(digest);
    }
    if compared_worlds >= 1 && reference.class.tag() == "ok" {
        st.nontrivial_pairs.insert(pair_hash);
    }
    if st.samples.len() < 3 {
        st.samples.push(json!({
            "grammar": case.grammar.id, "settings": case.spec.label(), "origin": case.origin,
            "reference_class": reference.class.tag(),
            "worlds": case.worlds[1..].iter().map(|w| json!({
                "hash_seed": w.hash_seed.to_string(), "vehicle": vehicle_name(w.vehicle), "cwd": w.cwd, "tty": w.tty,
                "stale": w.stale, "env": w.env.iter().map(|e| format!("{}={}", e.0, e.1)).collect::<Vec<_>>(),
                "neighbours": w.neighbours.iter().map(|n| n.0.id.clone()).collect::<Vec<_>>(),
                "faults": w.faults.iter().map(|f| format!("ev{}:{}:{}", f.event, f.kind, f.arg)).collect::<Vec<_>>(),
                "proj": w.proj_name,
            })).collect::<Vec<_>>(),
        }));
    }
    out
}

/// Does the (two-world) case still show a violation of the same class?
pub fn still_fails(env: &Env, case: &Case, class: &str) -> bool {
    let a = sim::run_world(env, &case.grammar, &case.spec, &case.worlds[0]);
    if hard_failure(&a.class) {
        return false;
    }
    let b = sim::run_world(env, &case.grammar, &case.spec, &case.worlds[1]);
    if hard_failure(&b.class) {
        return false;
    }
    matches!(compare(case, &a, &b), Some(d) if d.class == class)
}

/// Greedy delta debugging: move the failing world towards the reference world
/// one dimension at a time, then drop grammar lines (DESIGN.md 3.4).
pub fn minimise(env: &Env, case: &Case, class: &str) -> Case {
    let mut cur = case.clone();
    let r = World::reference();
    macro_rules! try_set {
        ($field:ident) => {{
            let mut c = cur.clone();
            c.worlds[1].$field = r.$field.clone();
            if still_fails(env, &c, class) {
                cur = c;
            }
        }};
    }
    try_set!(faults);
    try_set!(neighbours);
    try_set!(vehicle);
    try_set!(stale);
    try_set!(env);
    try_set!(env_defaults);
    try_set!(cwd);
    try_set!(rel_path);
    try_set!(proj_name);
    try_set!(tty);
    try_set!(dir_seed);
    try_set!(epoch);
    try_set!(pid);
    try_set!(hash_seed);
    // neighbours one by one
    let mut i = 0;
    while i < cur.worlds[1].neighbours.len() {
        let mut c = cur.clone();
        c.worlds[1].neighbours.remove(i);
        if still_fails(env, &c, class) {
            cur = c;
        } else {
            i += 1;
        }
    }
    // settings towards the default
    let d = if cur.spec.glr { Spec::glr_default() } else { Spec::lr_default() };
    macro_rules! try_spec {
        ($field:ident) => {{
            if cur.spec.$field != d.$field {
                let mut c = cur.clone();
                c.spec.$field = d.$field.clone();
                if still_fails(env, &c, class) {
                    cur = c;
                }
            }
        }};
    }
    try_spec!(builder);
    try_spec!(arrays);
    try_spec!(loc_info);
    try_spec!(fancy);
    try_spec!(custom_lexer);
    try_spec!(input_type);
    try_spec!(table);
    try_spec!(prefer_shifts);
    try_spec!(prefer_shifts_over_empty);
    try_spec!(most_specific);
    try_spec!(longest_match);
    try_spec!(grammar_order);
    try_spec!(partial);
    try_spec!(skip_ws);
    try_spec!(out_dirs);
    try_spec!(dot);
    try_spec!(trace);
    try_spec!(print_table);
    // grammar lines
    if let Ok(text) = String::from_utf8(cur.grammar.bytes.clone()) {
        let mut lines: Vec<String> = text.lines().map(|l| l.to_string()).collect();
        let mut i = 0;
        let mut budget = 200;
        while i < lines.len() && budget > 0 {
            budget -= 1;
            let mut l2 = lines.clone();
            l2.remove(i);
            let mut c = cur.clone();
            c.grammar.bytes = (l2.join("\n") + "\n").into_bytes();
            c.grammar.id = format!("min:{}", cur.grammar.id.trim_start_matches("min:"));
            if still_fails(env, &c, class) {
                lines = l2;
                cur = c;
            } else {
                i += 1;
            }
        }
    }
    cur
}

pub fn work(env: &Env, ctx: &Ctx, w: usize, nw: usize, plan: &[(u64, u64, usize, bool)]) -> Value {
    let mut st = Stats::default();
    let mut viol: Vec<Value> = vec![];
    for &(stream, count, nworlds, allow_rcomp) in plan {
        let mut idx = w as u64;
        while idx < count {
            let mut case = gen_case(ctx, stream, idx, nworlds, allow_rcomp);
            if case.existing_seed != 0 {
                attach_existing(env, &mut case, &mut st);
            }
            for v in check_case(env, &case, stream * 1_000_000_000 + idx, &mut st) {
                if viol.len() < 40 {
                    viol.push(v.to_json());
                }
            }
            idx += nw as u64;
        }
    }
    let digests = std::mem::take(&mut st.digests);
    json!({"stats": st.to_json(), "violations": viol, "digests": digests})
}

pub fn neighbours_ctx(repo: &std::path::Path, verif: &std::path::Path, seed: u64) -> Ctx {
    Ctx { corpus: corpus::load(repo, &verif.join("corpus/grammars")), neighbours: corpus::neighbours(), seed }
}
