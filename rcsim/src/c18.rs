//! C18 -- regenerating actions preserves user edits and only adds what is
//! missing.  The actions file on the scratch tree is durable state; a seeded
//! "user" edits it between regenerations; every regeneration is checked
//! against a reference model of the file (ordered list of top-level items).
//! (DESIGN.md 4/C18)

use crate::gen;
use crate::prng::{fnv64, sub_seed, Rng};
use crate::report::Violation;
use crate::shim::{F_EINTR, F_ERRNO, F_SHORT, OP_OPEN, OP_READ};
use crate::sim::{self, Class, Env, Fault, GrammarSrc, World};
use crate::spec::Spec;
use serde_json::{json, Value};
use std::collections::{BTreeMap, BTreeSet};

#[derive(Clone, Copy, Debug, PartialEq, Eq, PartialOrd, Ord)]
pub enum Ns {
    Type,
    Fn,
}

pub fn ns_name(item: &syn::Item) -> Option<(Ns, String)> {
    // `r#num` and `num` are the same Rust identifier
    use syn::ext::IdentExt;
    match item {
        syn::Item::Struct(s) => Some((Ns::Type, s.ident.unraw().to_string())),
        syn::Item::Enum(e) => Some((Ns::Type, e.ident.unraw().to_string())),
        syn::Item::Type(t) => Some((Ns::Type, t.ident.unraw().to_string())),
        syn::Item::Fn(f) => Some((Ns::Fn, f.sig.ident.unraw().to_string())),
        _ => None,
    }
}

/// prettyplease normal form of one item (DESIGN.md 4/C18 "Item equality").
pub fn normal(item: &syn::Item) -> String {
    prettyplease::unparse(&syn::File { shebang: None, attrs: vec![], items: vec![item.clone()] })
}

fn label(item: &syn::Item) -> String {
    match ns_name(item) {
        Some((Ns::Type, n)) => format!("type {n}"),
        Some((Ns::Fn, n)) => format!("fn {n}"),
        None => {
            let s = normal(item);
            s.lines().next().unwrap_or("").chars().take(40).collect()
        }
    }
}

#[derive(Clone, Debug)]
pub enum Step {
    /// the "user": the file now has exactly these bytes
    Edit { desc: String, bytes: Vec<u8> },
    Regen { force: bool, faults: Vec<Fault> },
    /// the "user" edits the grammar file: it now has exactly these bytes
    Grammar { desc: String, bytes: Vec<u8> },
}

#[derive(Clone)]
pub struct Case {
    pub grammar: GrammarSrc,
    pub spec: Spec,
    pub steps: Vec<Step>,
    pub origin: String,
}

impl Case {
    pub fn to_json(&self) -> Value {
        json!({"kind": "c18", "origin": self.origin, "grammar": self.grammar.to_json(), "spec": self.spec.to_json(),
            "steps": self.steps.iter().map(|s| match s {
                Step::Edit { desc, bytes } => match std::str::from_utf8(bytes) {
                    Ok(t) => json!({"op": "edit", "desc": desc, "text": t}),
                    Err(_) => json!({"op": "edit", "desc": desc, "hex": sim::hex(bytes)}),
                },
                Step::Regen { force, faults } => json!({"op": "regen", "force": force,
                    "faults": faults.iter().map(|f| json!({"event": f.event, "kind": f.kind, "arg": f.arg})).collect::<Vec<_>>()}),
                Step::Grammar { desc, bytes } => json!({"op": "grammar", "desc": desc, "text": String::from_utf8_lossy(bytes)}),
            }).collect::<Vec<_>>()})
    }
    pub fn from_json(v: &Value) -> Option<Case> {
        let mut steps = vec![];
        for s in v.get("steps")?.as_array()? {
            match s.get("op")?.as_str()? {
                "edit" => {
                    let bytes = if let Some(t) = s.get("text").and_then(|t| t.as_str()) { t.as_bytes().to_vec() } else { sim::unhex(s.get("hex")?.as_str()?)? };
                    steps.push(Step::Edit { desc: s.get("desc").and_then(|d| d.as_str()).unwrap_or("").into(), bytes });
                }
                "regen" => steps.push(Step::Regen {
                    force: s.get("force")?.as_bool()?,
                    faults: s
                        .get("faults")?
                        .as_array()?
                        .iter()
                        .map(|f| Some(Fault { event: f.get("event")?.as_u64()?, kind: f.get("kind")?.as_u64()? as u8, arg: f.get("arg")?.as_i64()? as i32 }))
                        .collect::<Option<Vec<_>>>()?,
                }),
                "grammar" => steps.push(Step::Grammar { desc: s.get("desc").and_then(|d| d.as_str()).unwrap_or("").into(), bytes: s.get("text")?.as_str()?.as_bytes().to_vec() }),
                _ => return None,
            }
        }
        Some(Case {
            grammar: GrammarSrc::from_json(v.get("grammar")?)?,
            spec: Spec::from_json(v.get("spec")?)?,
            steps,
            origin: v.get("origin").and_then(|o| o.as_str()).unwrap_or("").to_string(),
        })
    }
}

#[derive(Default)]
pub struct Stats {
    pub histories: u64,
    pub histories_skipped: u64,
    pub ops: BTreeMap<String, u64>,
    pub regens_checked: u64,
    pub regens_err: u64,
    pub items_preserved: u64,
    pub items_appended: u64,
    pub split_deletions: u64,
    pub faults_fired: BTreeMap<String, u64>,
    pub torn_actions_file: u64,
    pub stat_fault_runs: u64,
    pub compiles: u64,
    pub distinct: BTreeSet<u64>,
    pub nontrivial: BTreeSet<u64>,
    pub grammars: BTreeSet<u64>,
    pub samples: Vec<Value>,
    pub rules_checked: BTreeMap<String, u64>,
    pub digests: Vec<String>,
}

impl Stats {
    pub fn to_json(&self) -> Value {
        json!({"histories": self.histories, "histories_skipped": self.histories_skipped, "ops": self.ops,
            "regens_checked": self.regens_checked, "regens_err": self.regens_err, "items_preserved": self.items_preserved,
            "items_appended": self.items_appended, "split_deletions": self.split_deletions, "faults_fired": self.faults_fired,
            "torn_actions_file": self.torn_actions_file, "stat_fault_runs": self.stat_fault_runs, "compiles": self.compiles,
            "distinct": self.distinct.iter().collect::<Vec<_>>(), "nontrivial": self.nontrivial.iter().collect::<Vec<_>>(),
            "grammars": self.grammars.iter().collect::<Vec<_>>(), "samples": self.samples, "rules_checked": self.rules_checked})
    }
}

fn bump(m: &mut BTreeMap<String, u64>, k: &str) {
    *m.entry(k.to_string()).or_insert(0) += 1;
}

#[derive(Clone)]
pub struct Model {
    /// items of one forced generation into an empty directory
    pub u: Vec<syn::Item>,
    pub golden: Vec<u8>,
}

fn actions_name(g: &GrammarSrc) -> String {
    format!("{}_actions.rs", g.stem)
}

/// U(G,S): forced generation in the reference world.
pub fn model(env: &Env, g: &GrammarSrc, spec: &Spec) -> Option<Model> {
    let mut s = spec.clone();
    s.force = true;
    let o = sim::run_world(env, g, &s, &World::reference());
    if o.class != Class::Ok {
        return None;
    }
    let golden = o.file(&actions_name(g))?;
    let f = syn::parse_file(std::str::from_utf8(&golden).ok()?).ok()?;
    Some(Model { u: f.items, golden })
}

thread_local! {
    /// models of evolved grammars of the history being generated/replayed
    /// (cleared per history, so hits do not depend on the worker count)
    static MODEL_CACHE: std::cell::RefCell<BTreeMap<u64, Option<Model>>> = const { std::cell::RefCell::new(BTreeMap::new()) };
}

fn model_cached(env: &Env, g: &GrammarSrc, spec: &Spec, st: &mut Stats) -> Option<Model> {
    let key = fnv64(&[&g.bytes[..], spec.label().as_bytes()].concat());
    if let Some(m) = MODEL_CACHE.with(|c| c.borrow().get(&key).cloned()) {
        return m;
    }
    st.compiles += 1;
    let m = model(env, g, spec);
    MODEL_CACHE.with(|c| c.borrow_mut().insert(key, m.clone()));
    m
}

/// The user extends the grammar: a new rule `VerifNew<k>` led by a fresh
/// keyword, reachable through a new alternative of the start rule.  Text
/// level, no grammar parser of our own: the first top-level `;` ends the
/// start rule; the `terminals` line starts the terminal section.
pub fn evolve_grammar(rng: &mut Rng, text: &str, k: usize) -> Option<String> {
    let tpos = {
        let mut off = 0usize;
        let mut found = None;
        for line in text.split_inclusive('\n') {
            if line.trim() == "terminals" {
                found = Some(off);
                break;
            }
            off += line.len();
        }
        found?
    };
    // terminal names
    let mut terms: Vec<String> = vec![];
    for line in text[tpos..].lines().skip(1) {
        let l = line.trim_start();
        let name: String = l.chars().take_while(|c| c.is_ascii_alphanumeric() || *c == '_').collect();
        if !name.is_empty() && name.chars().next().map(|c| c.is_ascii_alphabetic()).unwrap_or(false) && l[name.len()..].trim_start().starts_with(':') {
            terms.push(name);
        }
    }
    if terms.is_empty() {
        return None;
    }
    // end of the first rule
    let b = text.as_bytes();
    let mut i = 0usize;
    let mut end = None;
    while i < tpos {
        match b[i] {
            b'/' if i + 1 < tpos && b[i + 1] == b'/' => {
                while i < tpos && b[i] != b'\n' {
                    i += 1;
                }
            }
            b'/' if i + 1 < tpos && b[i + 1] == b'*' => {
                let mut depth = 0usize;
                while i + 1 < tpos {
                    if b[i] == b'/' && b[i + 1] == b'*' {
                        depth += 1;
                        i += 2;
                    } else if b[i] == b'*' && b[i + 1] == b'/' {
                        depth -= 1;
                        i += 2;
                        if depth == 0 {
                            break;
                        }
                    } else {
                        i += 1;
                    }
                }
            }
            q @ (b'\'' | b'"') => {
                i += 1;
                while i < tpos && b[i] != q {
                    if b[i] == b'\\' {
                        i += 1;
                    }
                    i += 1;
                }
                i += 1;
            }
            b';' => {
                end = Some(i);
                break;
            }
            _ => i += 1,
        }
    }
    let end = end?;
    let t1 = rng.pick(&terms).clone();
    let t2 = rng.pick(&terms).clone();
    let mut out = String::new();
    out.push_str(&text[..end]);
    out.push_str(&format!(" | VerifNew{k}"));
    out.push_str(&text[end..tpos]);
    if !out.ends_with('\n') {
        out.push('\n');
    }
    out.push_str(&format!("VerifNew{k}: VerifKw{k} {t1} | VerifKw{k} VerifKw{k} {t2};\n"));
    out.push_str(&text[tpos..]);
    if !out.ends_with('\n') {
        out.push('\n');
    }
    out.push_str(&format!("VerifKw{k}: 'verifkw{k}';\n"));
    Some(out)
}

const HEADER_TYPES: [&str; 3] = ["Input", "Ctx", "Token"];

fn is_header(item: &syn::Item) -> bool {
    match item {
        syn::Item::Use(_) => true,
        _ => matches!(ns_name(item), Some((Ns::Type, n)) if HEADER_TYPES.contains(&n.as_str())),
    }
}

// ---- the simulated user -------------------------------------------------

fn user_item(rng: &mut Rng, n: usize, gen_names: &[(Ns, String)]) -> (String, syn::Item) {
    let pick = rng.below(20);
    let gt = gen_names.iter().filter(|x| x.0 == Ns::Type).map(|x| x.1.clone()).next().unwrap_or("Shadow".into());
    let gf = gen_names.iter().filter(|x| x.0 == Ns::Fn).map(|x| x.1.clone()).last().unwrap_or("shadow".into());
    let src = match pick {
        0 => "use std::collections::BTreeMap as UserMap;".to_string(),
        1 => format!("pub const USER_CONST_{n}: usize = {n} * 2 + 1;"),
        2 => format!("pub static USER_STATIC_{n}: &str = \"user {{}} \\\" text\";"),
        3 => format!("pub fn user_fn_{n}<'a, T: Clone + 'a>(x: &'a [T], n: usize) -> Option<&'a T> {{ if n < x.len() {{ Some(&x[n]) }} else {{ None }} }}"),
        4 => format!("#[derive(Debug, Clone, PartialEq)]\npub struct UserStruct{n}<T> {{ pub a: Vec<T>, b: (u8, i64), }}"),
        5 => format!("pub enum UserEnum{n} {{ A, B(u8), C {{ x: i32 }}, }}"),
        6 => format!("impl UserTrait{n} for u8 {{ fn go(&self) -> u8 {{ *self + 1 }} }}"),
        7 => format!("pub trait UserTrait{n} {{ fn go(&self) -> u8; fn twice(&self) -> u8 {{ self.go() * 2 }} }}"),
        // nested items whose names equal generated names must not suppress generation
        8 => format!("pub mod user_mod_{n} {{ pub struct {gt}; pub fn {gf}() -> u8 {{ 0 }} pub type {gt}Alias = {gt}; }}"),
        9 => format!("macro_rules! user_macro_{n} {{ ($x:expr) => {{ $x + 1 }}; ($x:expr, $($y:tt)*) => {{ $x }}; }}"),
        10 => format!("/// user docs for item {n}\n#[allow(dead_code)]\nfn user_private_{n}() {{ let _ = |a: u8| a as u32; }}"),
        11 => format!("pub type UserAlias{n}<'i> = std::borrow::Cow<'i, str>;"),
        // items that carry a generated name without being a type or a function
        // of the module: they must neither suppress generation nor be touched
        12 => format!("macro_rules! {gf} {{ () => {{ 0 }}; ($x:expr) => {{ $x }}; }}"),
        13 => format!("#[allow(non_upper_case_globals)]\npub static {gt}: u8 = {n} as u8;"),
        14 => format!("impl {gt} {{ pub fn {gf}(&self) -> u8 {{ 0 }} pub const USER_{n}: u8 = 1; }}"),
        15 => format!("pub(crate) struct {gt}Helper{n}<'a, T: 'a + ?Sized>(pub(crate) &'a T);"),
        16 => format!("#[cfg(test)]\nmod user_tests_{n} {{ use super::*; #[test] fn {gf}() {{ assert_eq!(1 + 1, 2); }} }}"),
        17 => format!("extern \"C\" {{ fn user_ffi_{n}(x: u8) -> u8; }}"),
        18 => format!("#[repr(C)]\npub union UserUnion{n} {{ a: u8, b: u32 }}"),
        _ => format!("pub use self::user_mod_{n}::{{{gt} as UserReexport{n}, *}};"),
    };
    let item: syn::Item = syn::parse_str(&src).expect("harness template must parse");
    (label(&item), item)
}

fn rewrite_item(rng: &mut Rng, item: &mut syn::Item, n: usize) -> Option<String> {
    match item {
        syn::Item::Fn(f) => {
            let name = f.sig.ident.to_string();
            match rng.below(5) {
                0 => {
                    f.block = Box::new(syn::parse_str(&format!("{{ unimplemented!(\"user body {n}\") }}")).unwrap());
                    Some(format!("replace body of fn {name}"))
                }
                1 => {
                    let stmt: syn::Stmt = syn::parse_str(&format!("let _user_{n} = {n};")).unwrap();
                    f.block.stmts.insert(0, stmt);
                    Some(format!("add statement to fn {name}"))
                }
                2 => {
                    for (k, a) in f.sig.inputs.iter_mut().enumerate() {
                        if let syn::FnArg::Typed(t) = a {
                            if k > 0 {
                                *t.pat = syn::parse_str(&format!("user_arg_{k}")).unwrap();
                            }
                        }
                    }
                    f.block = Box::new(syn::parse_str("{ todo!() }").unwrap());
                    Some(format!("rename parameters of fn {name}"))
                }
                3 => {
                    f.sig.output = syn::parse_str("-> Result<u8, String>").unwrap();
                    f.block = Box::new(syn::parse_str("{ Ok(0) }").unwrap());
                    Some(format!("change return type of fn {name}"))
                }
                _ => {
                    f.attrs.push(syn::parse_quote!(#[inline(never)]));
                    f.attrs.push(syn::parse_quote!(#[doc = " user documentation"]));
                    Some(format!("add attributes to fn {name}"))
                }
            }
        }
        syn::Item::Struct(s) => {
            let name = s.ident.to_string();
            match rng.below(3) {
                0 => {
                    if let syn::Fields::Named(f) = &mut s.fields {
                        f.named.push(syn::Field::parse_named.parse_str(&format!("pub user_extra_{n}: Option<u32>")).ok()?);
                        return Some(format!("add field to struct {name}"));
                    }
                    None
                }
                1 => {
                    let vis = s.vis.clone();
                    let ident = s.ident.clone();
                    *item = syn::parse_quote!(#vis type #ident = Vec<(u8, String)>;);
                    Some(format!("turn struct {name} into a type alias"))
                }
                _ => {
                    s.attrs.push(syn::parse_quote!(#[derive(PartialEq)]));
                    Some(format!("add derive to struct {name}"))
                }
            }
        }
        syn::Item::Enum(e) => {
            let name = e.ident.to_string();
            e.variants.push(syn::parse_str(&format!("UserVariant{n}(u8)")).ok()?);
            Some(format!("add variant to enum {name}"))
        }
        syn::Item::Type(t) => {
            let name = t.ident.to_string();
            if HEADER_TYPES.contains(&name.as_str()) {
                return None;
            }
            *t.ty = syn::parse_str("Box<(usize, String)>").unwrap();
            Some(format!("change target of type {name}"))
        }
        _ => None,
    }
}

use syn::parse::Parser;

/// Textual noise a formatter-less user leaves behind: non-doc comments (the
/// documented exception) and odd spacing.
fn raw_noise(rng: &mut Rng, text: &str) -> String {
    let mut out = String::new();
    for (i, line) in text.lines().enumerate() {
        // only between top-level items (lines starting a new item)
        let top = !line.starts_with(' ') && !line.starts_with('}') && !line.is_empty();
        if top && rng.chance(1, 5) {
            out.push_str(&format!("// user note {i}\n"));
        }
        if top && rng.chance(1, 8) {
            out.push_str("\n\n");
        }
        out.push_str(line);
        if rng.chance(1, 10) {
            out.push_str("   ");
        }
        out.push('\n');
    }
    if rng.chance(1, 3) {
        out.push_str("\n\n// trailing user comment\n");
    }
    out
}

/// One seeded edit of the current file.  Returns (op kind, description, new bytes).
fn edit(rng: &mut Rng, cur: &[u8], m: &Model, n: usize, snapshots: &[Vec<u8>], st: &mut Stats) -> Option<(&'static str, String, Vec<u8>)> {
    let text = std::str::from_utf8(cur).ok()?;
    let mut f = syn::parse_file(text).ok()?;
    let u_names: Vec<(Ns, String)> = m.u.iter().filter(|i| !is_header(i)).filter_map(ns_name).collect();
    let derived: Vec<usize> = f.items.iter().enumerate().filter(|(_, i)| !is_header(i) && ns_name(i).map(|nn| u_names.contains(&nn)).unwrap_or(false)).map(|(k, _)| k).collect();
    let kind: &'static str;
    let desc: String;
    match rng.below(13) {
        12 => {
            // the user writes the name of a generated item as a raw identifier
            // (`fn r#num`): the same item under the same name
            if derived.is_empty() {
                return None;
            }
            kind = "raw-ident";
            let k = *rng.pick(&derived);
            let raw = |id: &syn::Ident| -> Option<syn::Ident> {
                use syn::ext::IdentExt;
                let n = id.unraw().to_string();
                if n == "_" || n == "self" || n == "Self" || n == "super" || n == "crate" {
                    None
                } else {
                    Some(syn::Ident::new_raw(&n, id.span()))
                }
            };
            let done = match &mut f.items[k] {
                syn::Item::Fn(x) => raw(&x.sig.ident).map(|i| x.sig.ident = i).is_some(),
                syn::Item::Struct(x) => raw(&x.ident).map(|i| x.ident = i).is_some(),
                syn::Item::Enum(x) => raw(&x.ident).map(|i| x.ident = i).is_some(),
                syn::Item::Type(x) => raw(&x.ident).map(|i| x.ident = i).is_some(),
                _ => false,
            };
            if !done {
                return None;
            }
            desc = format!("write the name of {} as a raw identifier", label(&f.items[k]));
        }
        11 => {
            // the user keeps two attribute-selected alternatives of one item
            if derived.is_empty() {
                return None;
            }
            kind = "cfg-split";
            let k = *rng.pick(&derived);
            let mut alt = f.items[k].clone();
            let on: syn::Attribute = syn::parse_quote!(#[cfg(feature = "verif_alt")]);
            let off: syn::Attribute = syn::parse_quote!(#[cfg(not(feature = "verif_alt"))]);
            let push = |i: &mut syn::Item, a: syn::Attribute| match i {
                syn::Item::Fn(x) => x.attrs.push(a),
                syn::Item::Struct(x) => x.attrs.push(a),
                syn::Item::Enum(x) => x.attrs.push(a),
                syn::Item::Type(x) => x.attrs.push(a),
                _ => {}
            };
            push(&mut f.items[k], off);
            push(&mut alt, on);
            desc = format!("split {} into two cfg-selected alternatives", label(&f.items[k]));
            f.items.insert(k + 1, alt);
        }
        10 => {
            kind = "add-file-attr";
            let attr: syn::Attribute = match rng.below(4) {
                0 => syn::parse_quote!(#![allow(dead_code)]),
                1 => syn::parse_quote!(#![allow(non_camel_case_types, clippy::all)]),
                2 => syn::parse_quote!(#![doc = " Module documentation written by the user."]),
                _ => syn::parse_quote!(#![cfg_attr(test, allow(unused))]),
            };
            f.attrs.push(attr);
            desc = format!("add file-level attribute #{}", f.attrs.len());
        }
        0..=3 => {
            if derived.is_empty() {
                return None;
            }
            kind = "delete";
            let victims: Vec<usize> = match rng.below(8) {
                0..=3 => {
                    st.split_deletions += 1;
                    vec![*rng.pick(&derived)]
                }
                4 => derived.iter().copied().filter(|_| rng.chance(1, 3)).collect(),
                5 => derived.iter().copied().filter(|k| matches!(ns_name(&f.items[*k]), Some((Ns::Fn, _)))).collect(),
                6 => derived.iter().copied().filter(|k| matches!(ns_name(&f.items[*k]), Some((Ns::Type, _)))).collect(),
                _ => derived.clone(),
            };
            if victims.is_empty() {
                return None;
            }
            let names: Vec<String> = victims.iter().map(|k| label(&f.items[*k])).collect();
            let mut k = 0;
            f.items.retain(|_| {
                k += 1;
                !victims.contains(&(k - 1))
            });
            desc = format!("delete {}", names.join(", "));
        }
        4 | 5 => {
            kind = "rewrite";
            let cands: Vec<usize> = f.items.iter().enumerate().filter(|(_, i)| !is_header(i)).map(|(k, _)| k).collect();
            if cands.is_empty() {
                return None;
            }
            let k = *rng.pick(&cands);
            desc = rewrite_item(rng, &mut f.items[k], n)?;
        }
        6 | 7 => {
            kind = "add-user-item";
            let (l, item) = user_item(rng, n, &u_names);
            let pos = rng.usize(f.items.len() + 1);
            f.items.insert(pos, item);
            desc = format!("insert user item `{l}` at position {pos}");
        }
        8 => {
            if f.items.len() < 2 {
                return None;
            }
            kind = "swap";
            let k = rng.usize(f.items.len() - 1);
            f.items.swap(k, k + 1);
            desc = format!("swap items {k} and {}", k + 1);
        }
        _ => {
            if snapshots.is_empty() {
                return None;
            }
            kind = "restore";
            let k = rng.usize(snapshots.len());
            return Some((kind, format!("restore snapshot {k}"), snapshots[k].clone()));
        }
    }
    let mut out = prettyplease::unparse(&f);
    if rng.chance(1, 3) {
        out = raw_noise(rng, &out);
    }
    Some((kind, desc, out.into_bytes()))
}

// ---- oracle ---------------------------------------------------------------

pub struct Finding {
    pub rule: &'static str,
    pub what: String,
    pub pattern: String,
}

/// type name -> name of the grammar symbol it was generated for.
pub fn type_owners(u: &[syn::Item]) -> BTreeMap<String, String> {
    let mut owners = BTreeMap::new();
    let items: Vec<&syn::Item> = u.iter().filter(|i| !is_header(i)).collect();
    let mut k = 0;
    while k < items.len() {
        let mut types = vec![];
        while k < items.len() {
            match ns_name(items[k]) {
                Some((Ns::Type, n)) => {
                    types.push(n);
                    k += 1;
                }
                _ => break,
            }
        }
        let mut rule: Option<String> = None;
        while k < items.len() {
            match items[k] {
                syn::Item::Fn(f) => {
                    if rule.is_none() {
                        if let syn::ReturnType::Type(_, t) = &f.sig.output {
                            if let syn::Type::Path(p) = &**t {
                                rule = p.path.get_ident().map(|i| i.to_string());
                            }
                        }
                    }
                    k += 1;
                }
                _ => break,
            }
        }
        if let Some(r) = rule {
            for t in types {
                owners.insert(t, r.clone());
            }
        } else if types.is_empty() {
            k += 1;
        }
    }
    owners
}

fn names_of(items: &[syn::Item]) -> Vec<Option<(Ns, String)>> {
    items.iter().map(ns_name).collect()
}

/// K1-K4 for one non-forced regeneration P -> Q.
pub fn check_regen(m: &Model, p_bytes: &[u8], q_bytes: &[u8], st: &mut Stats) -> Option<Finding> {
    let p = syn::parse_file(std::str::from_utf8(p_bytes).ok()?).ok()?;
    let q = match std::str::from_utf8(q_bytes).ok().and_then(|t| syn::parse_file(t).ok()) {
        Some(q) => q,
        None => {
            return Some(Finding { rule: "K1", what: "regenerated actions file does not parse as Rust".into(), pattern: "unparsable-output".into() });
        }
    };
    // K1 preservation: file-level inner attributes / module docs and shebang
    bump(&mut st.rules_checked, "K1");
    let file_attrs = |f: &syn::File| prettyplease::unparse(&syn::File { shebang: None, attrs: f.attrs.clone(), items: vec![] });
    if file_attrs(&p) != file_attrs(&q) || p.shebang != q.shebang {
        return Some(Finding {
            rule: "K1",
            what: format!("file-level attributes / module documentation changed by regeneration: before {:?}, after {:?}", file_attrs(&p).chars().take(120).collect::<String>(), file_attrs(&q).chars().take(120).collect::<String>()),
            pattern: "file-attrs-changed".into(),
        });
    }
    if q.items.len() < p.items.len() {
        return Some(Finding { rule: "K1", what: format!("file had {} items before regeneration and {} after", p.items.len(), q.items.len()), pattern: "items-lost".into() });
    }
    for (k, (a, b)) in p.items.iter().zip(q.items.iter()).enumerate() {
        if normal(a) != normal(b) {
            return Some(Finding {
                rule: "K1",
                what: format!("existing item {k} (`{}`) was changed or displaced by regeneration; now `{}`", label(a), label(b)),
                pattern: format!("changed:{}", label(a).split(' ').next().unwrap_or("")),
            });
        }
    }
    st.items_preserved += p.items.len() as u64;
    let appended = &q.items[p.items.len()..];
    st.items_appended += appended.len() as u64;
    // K2 provenance
    bump(&mut st.rules_checked, "K2");
    for a in appended {
        let nn = ns_name(a);
        let ok = nn.is_some() && m.u.iter().any(|u| ns_name(u) == nn && normal(u) == normal(a));
        if !ok {
            return Some(Finding { rule: "K2", what: format!("appended item `{}` is not an item of a fresh generation for this grammar", label(a)), pattern: "foreign-append".into() });
        }
    }
    // K3 exactly the missing ones
    bump(&mut st.rules_checked, "K3");
    let top_p: BTreeSet<(Ns, String)> = names_of(&p.items).into_iter().flatten().collect();
    let mut missing: Vec<(Ns, String)> = m.u.iter().filter(|i| !is_header(i)).filter_map(ns_name).filter(|nn| !top_p.contains(nn)).collect();
    let mut got: Vec<(Ns, String)> = names_of(appended).into_iter().flatten().collect();
    missing.sort();
    got.sort();
    if missing != got {
        let not_added: Vec<String> = missing.iter().filter(|x| !got.contains(x)).map(|x| format!("{:?} {}", x.0, x.1)).collect();
        let extra: Vec<String> = got.iter().filter(|x| !missing.contains(x) || got.iter().filter(|y| y == x).count() > missing.iter().filter(|y| y == x).count()).map(|x| format!("{:?} {}", x.0, x.1)).collect();
        // Which rule owns a generated type: a fresh generation emits, per
        // grammar symbol, a run of types followed by a run of action functions
        // returning the type named like the symbol.
        let owners = type_owners(&m.u);
        let companions_only = !not_added.is_empty()
            && extra.is_empty()
            && missing.iter().filter(|x| !got.contains(x)).all(|x| {
                x.0 == Ns::Type && matches!(owners.get(&x.1), Some(rule) if *rule != x.1 && top_p.contains(&(Ns::Type, rule.clone())))
            });
        let pattern = if companions_only {
            "missing-not-added:companion-type-while-rule-type-present"
        } else if !not_added.is_empty() && extra.is_empty() {
            "missing-not-added"
        } else if not_added.is_empty() {
            "extra-appended"
        } else {
            "missing-and-extra"
        };
        return Some(Finding { rule: "K3", what: format!("missing items not added: [{}]; items appended although present: [{}]", not_added.join(", "), extra.join(", ")), pattern: pattern.into() });
    }
    // K4 no duplicates
    bump(&mut st.rules_checked, "K4");
    let mut count_p: BTreeMap<(Ns, String), usize> = BTreeMap::new();
    for nn in names_of(&p.items).into_iter().flatten() {
        *count_p.entry(nn).or_insert(0) += 1;
    }
    let mut count_q: BTreeMap<(Ns, String), usize> = BTreeMap::new();
    for nn in names_of(&q.items).into_iter().flatten() {
        *count_q.entry(nn).or_insert(0) += 1;
    }
    for (nn, c) in &count_q {
        // a fresh generation may itself contain a name twice (that is C11's
        // business); regeneration must not add more than that
        let count_u = m.u.iter().filter(|u| ns_name(u).as_ref() == Some(nn)).count();
        let allowed = (*count_p.get(nn).unwrap_or(&0)).max(count_u).max(1);
        if *c > allowed {
            return Some(Finding { rule: "K4", what: format!("{:?} `{}` occurs {} times after regeneration ({} before)", nn.0, nn.1, c, count_p.get(nn).unwrap_or(&0)), pattern: "duplicate".into() });
        }
    }
    None
}

fn fault_allowed_failing(ev: &crate::shim::SimEvent) -> bool {
    ev.op == OP_OPEN || ev.op == OP_READ
}

pub struct RunResult {
    pub finding: Option<(usize, Finding)>,
    pub final_bytes: Vec<u8>,
    /// findings whose key is listed as known: the history continues past them
    pub tolerated: Vec<(usize, Finding)>,
    /// open/read/write events of the last regeneration (for aiming faults)
    pub last_events: Vec<u32>,
}

thread_local! {
    /// keys of known findings (loaded once per process from known_findings.json)
    pub static TOLERATE: std::cell::RefCell<BTreeSet<String>> = const { std::cell::RefCell::new(BTreeSet::new()) };
}

fn tolerated_key(f: &Finding) -> bool {
    let k = format!("{}:{}", f.rule, f.pattern);
    TOLERATE.with(|t| t.borrow().contains(&k))
}

/// Executes the explicit steps of a case, checking every regeneration.
pub fn run_case(env: &Env, case: &Case, m0: &Model, st: &mut Stats) -> RunResult {
    let aname = actions_name(&case.grammar);
    // grammar evolution: the current grammar text and its model
    let mut gcur = case.grammar.clone();
    let mut evolved: Option<Model> = None;
    let mut model_ok = true;
    let mut cur: Option<Vec<u8>> = None;
    // index of the last regeneration that returned Ok with no failing fault
    let mut last_clean_regen: Option<usize> = None;
    let mut tolerated: Vec<(usize, Finding)> = vec![];
    let mut last_events: Vec<u32> = vec![];
    for (si, step) in case.steps.iter().enumerate() {
        if let Step::Grammar { bytes, .. } = step {
            gcur.bytes = bytes.clone();
            if *bytes == case.grammar.bytes {
                evolved = None;
                model_ok = true;
            } else {
                evolved = model_cached(env, &gcur, &case.spec, st);
                model_ok = evolved.is_some();
            }
            last_clean_regen = None;
            continue;
        }
        let m: &Model = evolved.as_ref().unwrap_or(m0);
        match step {
            Step::Grammar { .. } => {}
            Step::Edit { bytes, .. } => cur = Some(bytes.clone()),
            Step::Regen { force, faults } => {
                let mut spec = case.spec.clone();
                spec.force = *force;
                let mut world = World::reference();
                world.faults = faults.clone();
                let o = sim::run_world_with(env, &gcur, &spec, &world, cur.as_deref());
                st.compiles += 1;
                if o.stat.eintr > 0 {
                    bump(&mut st.faults_fired, "eintr");
                }
                if o.stat.short > 0 {
                    bump(&mut st.faults_fired, "short");
                }
                if o.stat.errno > 0 {
                    bump(&mut st.faults_fired, "errno");
                }
                let failing_fired = o.stat.errno > 0;
                let after = o.file(&aname);
                last_events = o.events.iter().filter(|e| e.op == OP_OPEN || e.op == OP_READ || e.op == crate::shim::OP_WRITE).map(|e| e.seq).collect();
                // `Path::exists()` answers "no" when stat fails, so a failing
                // stat makes the compiler treat the actions file as absent and
                // start from scratch.  C18 does not quantify over faults
                // (DESIGN.md 4/C18, 11): counted, never alarmed, and nothing
                // else is relaxed.
                if failing_fired && o.events.iter().any(|e| e.fault == F_ERRNO && (e.op == crate::shim::OP_STAT || e.op == crate::shim::OP_FSTAT)) {
                    st.stat_fault_runs += 1;
                    cur = after.or(cur);
                    last_clean_regen = None;
                    continue;
                }
                if let Ok(d) = std::env::var("VERIF_DUMP") {
                    let _ = std::fs::write(format!("{d}/step{si}.before.rs"), cur.clone().unwrap_or_default());
                    let _ = std::fs::write(format!("{d}/step{si}.after.rs"), after.clone().unwrap_or_default());
                    let _ = std::fs::write(format!("{d}/step{si}.class"), format!("{:?} fired={failing_fired} events={:?}", o.class, o.events));
                }
                match &o.class {
                    Class::Panic(_) | Class::Abort(_) | Class::Timeout => {
                        // C16's business; the history cannot continue
                        return RunResult { last_events: vec![], tolerated: std::mem::take(&mut tolerated), finding: None, final_bytes: cur.unwrap_or_default() };
                    }
                    Class::Err(msg) => {
                        st.regens_err += 1;
                        bump(&mut st.rules_checked, "K7");
                        // K7: the file is byte-identical to what it was
                        if after != cur {
                            // A failed *write* can tear the file (fs::write
                            // truncates first): counted, never alarmed.
                            // Under an injected failing fault the relaxation is
                            // deliberate and narrow: the actions file is written
                            // before the parser file, so the error may come
                            // after a *complete and correct* regeneration
                            // (checked by K1-K4), or the write of the actions
                            // file itself failed and tore it (fs::write truncates
                            // first: counted, never alarmed -- C18 does not
                            // quantify over crash points).
                            if failing_fired {
                                if let (true, Some(p), Some(a)) = (model_ok, &cur, &after) {
                                    if check_regen(m, p, a, &mut Stats::default()).is_none() {
                                        cur = after;
                                        continue;
                                    }
                                }
                                st.torn_actions_file += 1;
                                cur = after;
                                continue;
                            }
                            return RunResult {
                                last_events: vec![],
                                tolerated: std::mem::take(&mut tolerated),
                                finding: Some((si, Finding { rule: "K7", what: format!("regeneration returned Err ({}) but the actions file changed", msg.chars().take(100).collect::<String>()), pattern: "err-but-changed".into() })),
                                final_bytes: after.unwrap_or_default(),
                            };
                        }
                    }
                    Class::Ok if !model_ok => {
                        // the reference generation of the evolved grammar
                        // failed but this one succeeded: no model to check
                        // against (never observed; counted, not alarmed)
                        bump(&mut st.ops, "grammar-model-missing");
                        return RunResult { last_events: vec![], tolerated: std::mem::take(&mut tolerated), finding: None, final_bytes: after.or(cur).unwrap_or_default() };
                    }
                    Class::Ok => {
                        let after = match after {
                            Some(a) => a,
                            None => {
                                return RunResult { last_events: vec![], tolerated: std::mem::take(&mut tolerated), finding: Some((si, Finding { rule: "K1", what: "regeneration returned Ok but there is no actions file".into(), pattern: "no-file".into() })), final_bytes: vec![] };
                            }
                        };
                        if *force {
                            bump(&mut st.rules_checked, "K6");
                            if after != m.golden {
                                return RunResult { last_events: vec![], tolerated: std::mem::take(&mut tolerated), finding: Some((si, Finding { rule: "K6", what: "forced regeneration differs from a fresh generation".into(), pattern: "force-not-golden".into() })), final_bytes: after };
                            }
                        } else if failing_fired {
                            // a failing fault that the compiler absorbed (e.g.
                            // on close): nothing to relax, check as usual
                            if let Some(p) = &cur {
                                st.regens_checked += 1;
                                if let Some(f) = check_regen(m, p, &after, st) {
                                    if tolerated_key(&f) {
                                        tolerated.push((si, f));
                                    } else {
                                        return RunResult { last_events: vec![], tolerated: std::mem::take(&mut tolerated), finding: Some((si, f)), final_bytes: after };
                                    }
                                }
                            }
                        } else {
                            match &cur {
                                Some(p) => {
                                    st.regens_checked += 1;
                                    if let Some(f) = check_regen(m, p, &after, st) {
                                        if tolerated_key(&f) {
                                            tolerated.push((si, f));
                                        } else {
                                            return RunResult { last_events: vec![], tolerated: std::mem::take(&mut tolerated), finding: Some((si, f)), final_bytes: after };
                                        }
                                    }
                                    // K5 idempotence: the previous step was a
                                    // regeneration that succeeded undisturbed
                                    // => bytes must be identical
                                    if si > 0 && last_clean_regen == Some(si - 1) {
                                        bump(&mut st.rules_checked, "K5");
                                        if after != *p {
                                            return RunResult { last_events: vec![], tolerated: std::mem::take(&mut tolerated), finding: Some((si, Finding { rule: "K5", what: "a second regeneration changed the file".into(), pattern: "not-idempotent".into() })), final_bytes: after };
                                        }
                                    }
                                }
                                None => {
                                    bump(&mut st.rules_checked, "K6");
                                    if after != m.golden {
                                        return RunResult { last_events: vec![], tolerated: std::mem::take(&mut tolerated), finding: Some((si, Finding { rule: "K6", what: "generation into an empty directory differs from the golden bytes".into(), pattern: "fresh-not-golden".into() })), final_bytes: after };
                                    }
                                }
                            }
                        }
                        cur = Some(after);
                        if !failing_fired {
                            last_clean_regen = Some(si);
                        }
                    }
                }
            }
        }
    }
    RunResult { last_events, tolerated, finding: None, final_bytes: cur.unwrap_or_default() }
}

pub struct Ctx {
    pub corpus: Vec<GrammarSrc>,
    pub seed: u64,
}

fn c18_spec(rng: &mut Rng) -> Spec {
    let mut s = if rng.chance(1, 2) { Spec::glr_default() } else { Spec::lr_default() };
    s.loc_info = rng.chance(1, 3);
    s.custom_lexer = rng.chance(1, 6);
    s.arrays = rng.chance(1, 2);
    s.out_dirs = rng.chance(1, 4);
    s.out_only = if s.out_dirs { *rng.pick(&[0u8, 0, 1, 2]) } else { 0 };
    s.force = false;
    // "not forced" by the documented default instead of an explicit call
    s.force_implicit = !s.out_dirs && rng.chance(1, 3);
    s
}

/// Builds a history by running it: edits are drawn against the current file.
pub fn gen_and_run(env: &Env, ctx: &Ctx, stream: u64, idx: u64, with_faults: bool, st: &mut Stats) -> Option<Violation> {
    let ss = sub_seed(ctx.seed, 18_00 + stream, idx);
    let mut rng = Rng::new(ss);
    let (grammar, origin) = if stream == 0 {
        let g = ctx.corpus[(idx % ctx.corpus.len() as u64) as usize].clone();
        (g, format!("corpus idx={idx} sub_seed={ss}"))
    } else {
        let g = gen::generate(&mut rng);
        (GrammarSrc { id: format!("gen:{ss}"), stem: "gram".into(), bytes: g.text.into_bytes() }, format!("generated idx={idx} sub_seed={ss}"))
    };
    let spec = c18_spec(&mut rng);
    st.compiles += 1;
    MODEL_CACHE.with(|c| c.borrow_mut().clear());
    let m = match model(env, &grammar, &spec) {
        Some(m) => m,
        None => {
            st.histories_skipped += 1;
            return None;
        }
    };
    st.histories += 1;
    st.grammars.insert(fnv64(&grammar.bytes));
    let mut case = Case { grammar, spec, steps: vec![], origin };
    // first generation into the empty directory
    case.steps.push(Step::Regen { force: false, faults: vec![] });
    let mut cur = m.golden.clone();
    let mut snapshots: Vec<Vec<u8>> = vec![cur.clone()];
    let n_ops = rng.range(1, 8);
    let mut edited = false;
    let mut hist_hash = vec![];
    // grammar evolution: model of the grammar text currently in force
    let mut mcur: Model = m.clone();
    let mut gcur: Vec<u8> = case.grammar.bytes.clone();
    let mut evolutions = 0usize;
    for n in 0..n_ops {
        match rng.below(12) {
            10 | 11 => {
                // the user changes the grammar and regenerates
                let original = gcur == case.grammar.bytes;
                let (desc, bytes) = if !original && rng.chance(1, 2) {
                    ("revert the grammar to its original text".to_string(), case.grammar.bytes.clone())
                } else if evolutions < 2 {
                    let text = match std::str::from_utf8(&gcur) {
                        Ok(t) => t.to_string(),
                        Err(_) => continue,
                    };
                    match evolve_grammar(&mut rng, &text, evolutions + 1) {
                        Some(t) => (format!("add rule VerifNew{} to the grammar", evolutions + 1), t.into_bytes()),
                        None => continue,
                    }
                } else {
                    continue;
                };
                let g2 = GrammarSrc { id: case.grammar.id.clone(), stem: case.grammar.stem.clone(), bytes: bytes.clone() };
                let m2 = if bytes == case.grammar.bytes { Some(m.clone()) } else { model_cached(env, &g2, &case.spec, st) };
                match m2 {
                    Some(m2) => {
                        if bytes == case.grammar.bytes {
                            bump(&mut st.ops, "grammar-revert");
                        } else {
                            bump(&mut st.ops, "grammar-evolve");
                            evolutions += 1;
                        }
                        mcur = m2;
                    }
                    None => {
                        // the extended grammar does not compile under these
                        // settings (conflicts): the regeneration must fail and
                        // touch nothing (K7), then the user takes the edit back
                        bump(&mut st.ops, "grammar-evolve-not-compilable");
                        hist_hash.extend_from_slice(desc.as_bytes());
                        case.steps.push(Step::Grammar { desc, bytes });
                        case.steps.push(Step::Regen { force: false, faults: vec![] });
                        case.steps.push(Step::Grammar { desc: "take the grammar edit back".into(), bytes: gcur.clone() });
                        edited = true;
                        continue;
                    }
                }
                gcur = bytes.clone();
                edited = true;
                hist_hash.extend_from_slice(desc.as_bytes());
                case.steps.push(Step::Grammar { desc, bytes });
                case.steps.push(Step::Regen { force: false, faults: vec![] });
            }
            0 | 1 => {
                let force = rng.chance(1, 6);
                let mut faults = vec![];
                if with_faults && rng.chance(1, 2) {
                    // aim at an event of this very regeneration: probe it once
                    // fault-free and pick among the events the kind applies to
                    let mut probe = case.clone();
                    probe.steps.push(Step::Regen { force, faults: vec![] });
                    let pr = run_case(env, &probe, &m, &mut Stats::default());
                    st.compiles += 1;
                    let ev = pr.last_events;
                    let event = if ev.is_empty() { rng.below(20) } else { ev[rng.usize(ev.len())] as u64 };
                    match rng.below(3) {
                        0 => faults.push(Fault { event, kind: F_EINTR, arg: 0 }),
                        1 => {
                            // cut where a parser would not notice: in front of a
                            // line that starts at column 0 (top-level item)
                            let cuts: Vec<usize> = cur.windows(2).enumerate().filter(|(_, w)| w[0] == b'\n' && !w[1].is_ascii_whitespace() && w[1] != b'}').map(|(k, _)| k + 1).collect();
                            let arg = if !cuts.is_empty() && rng.chance(2, 3) { cuts[rng.usize(cuts.len())] as i32 } else { 1 + rng.below(200) as i32 };
                            faults.push(Fault { event, kind: F_SHORT, arg })
                        }
                        _ => faults.push(Fault { event, kind: F_ERRNO, arg: *rng.pick(&[libc::EIO, libc::EACCES, libc::EMFILE, libc::ENOSPC]) }),
                    }
                }
                bump(&mut st.ops, if force { "regen_force" } else { "regen" });
                case.steps.push(Step::Regen { force, faults });
            }
            9 if rng.chance(1, 3) => {
                // the user breaks the file: regeneration must fail and touch nothing
                let mut b = cur.clone();
                b.extend_from_slice(b"\nfn broken( {\n");
                bump(&mut st.ops, "break-file");
                case.steps.push(Step::Edit { desc: "append unparsable text".into(), bytes: b.clone() });
                case.steps.push(Step::Regen { force: false, faults: vec![] });
                // and repairs it again
                case.steps.push(Step::Edit { desc: "remove the unparsable text".into(), bytes: cur.clone() });
                continue;
            }
            _ => match edit(&mut rng, &cur, &mcur, n, &snapshots, st) {
                Some((kind, desc, bytes)) => {
                    bump(&mut st.ops, kind);
                    edited = true;
                    hist_hash.extend_from_slice(desc.as_bytes());
                    case.steps.push(Step::Edit { desc, bytes });
                }
                None => continue,
            },
        }
        // execute what we have so far to learn the current file
        let r = run_case(env, &case, &m, &mut Stats::default());
        if r.finding.is_some() {
            break;
        }
        cur = r.final_bytes;
        if matches!(case.steps.last(), Some(Step::Regen { .. })) {
            snapshots.push(cur.clone());
        }
    }
    // always end with regen, regen (K1-K4 then K5)
    case.steps.push(Step::Regen { force: false, faults: vec![] });
    case.steps.push(Step::Regen { force: false, faults: vec![] });
    bump(&mut st.ops, "regen");
    bump(&mut st.ops, "regen");
    let r = run_case(env, &case, &m, st);
    let h = fnv64(&[&case.grammar.bytes[..], case.spec.label().as_bytes(), &hist_hash[..]].concat());
    st.distinct.insert(h);
    if crate::report::digest_on() {
        st.digests.push(format!("{stream}:{idx}|{:016x}|{}|steps={}|final={:016x}|finding={}|tolerated={}", h, case.spec.label(), case.steps.len(), fnv64(&r.final_bytes), r.finding.as_ref().map(|f| format!("{}:{}@{}", f.1.rule, f.1.pattern, f.0)).unwrap_or_default(), r.tolerated.len()));
    }
    if edited {
        st.nontrivial.insert(h);
    }
    if st.samples.len() < 3 {
        st.samples.push(json!({"grammar": case.grammar.id, "settings": case.spec.label(),
            "history": case.steps.iter().map(|s| match s { Step::Edit { desc, .. } => format!("edit: {desc}"), Step::Regen { force, faults } => format!("regen force={force} faults={}", faults.len()), Step::Grammar { desc, .. } => format!("grammar: {desc}") }).collect::<Vec<_>>()}));
    }
    let first = match r.finding {
        Some(x) => Some(x),
        None => r.tolerated.into_iter().next(),
    };
    first.map(|(si, f)| {
        let mut c = case.clone();
        c.steps.truncate(si + 1);
        Violation {
            property: "C18".into(),
            class: format!("{}:{}", f.rule, f.pattern),
            key: format!("{}:{}", f.rule, f.pattern),
            what: format!("{} [{}; {}; step {}]", f.what, case.grammar.id, case.spec.label(), si),
            case: c.to_json(),
            index: stream * 1_000_000_000 + idx,
        }
    })
}

pub fn work(env: &Env, ctx: &Ctx, w: usize, nw: usize, plan: &[(u64, u64, bool)]) -> Value {
    let mut st = Stats::default();
    let mut viol: Vec<Value> = vec![];
    for &(stream, count, with_faults) in plan {
        let mut idx = w as u64;
        while idx < count {
            if let Some(v) = gen_and_run(env, ctx, stream + if with_faults { 2 } else { 0 }, idx, with_faults, &mut st) {
                if viol.len() < 40 {
                    viol.push(v.to_json());
                }
            }
            idx += nw as u64;
        }
    }
    let digests = std::mem::take(&mut st.digests);
    json!({"stats": st.to_json(), "violations": viol, "digests": digests})
}

/// Replays a case; returns the violation class it shows, if any.
pub fn replay(env: &Env, case: &Case) -> Option<(String, String)> {
    let m = model(env, &case.grammar, &case.spec)?;
    let r = run_case(env, case, &m, &mut Stats::default());
    let first = match r.finding {
        Some(x) => Some(x),
        None => r.tolerated.into_iter().next(),
    };
    first.map(|(si, f)| (format!("{}:{}", f.rule, f.pattern), format!("{} [step {si}]", f.what)))
}

/// Drop steps while the same class persists; edits are absolute (explicit
/// bytes), so any subsequence is a valid history.
pub fn minimise(env: &Env, case: &Case, class: &str) -> Case {
    let mut cur = case.clone();
    let fails = |c: &Case| matches!(replay(env, c), Some((k, _)) if k == class);
    // settings
    for f in 0..4 {
        let mut c = cur.clone();
        match f {
            0 => c.spec.arrays = false,
            1 => c.spec.out_dirs = false,
            2 => c.spec.custom_lexer = false,
            _ => c.spec.loc_info = false,
        }
        if c.spec != cur.spec && fails(&c) {
            cur = c;
        }
    }
    let mut i = 0;
    while i + 1 < cur.steps.len() {
        let mut c = cur.clone();
        c.steps.remove(i);
        if fails(&c) {
            cur = c;
        } else {
            i += 1;
        }
    }
    // faults
    for i in 0..cur.steps.len() {
        if let Step::Regen { force, faults } = &cur.steps[i] {
            if !faults.is_empty() {
                let mut c = cur.clone();
                c.steps[i] = Step::Regen { force: *force, faults: vec![] };
                if fails(&c) {
                    cur = c;
                }
            }
        }
    }
    cur
}
