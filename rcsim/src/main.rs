//! rcsim -- deterministic simulation of the rustemo compiler in simulated
//! project worlds (C16, C17, C18).  See /verif/DESIGN.md.
//!
//! Exit codes: 0 held, 1 VIOLATION, 2 harness error.

#![allow(dead_code)]
mod c16;
mod c17;
mod c18;
mod corpus;
mod forkrun;
mod gen;
mod pool;
mod prng;
mod report;
mod shim;
mod sim;
mod spec;

use report::{Paths, Report, Violation};
use serde_json::{json, Value};
use std::path::PathBuf;

pub struct Args {
    pub cmd: String,
    pub tier: String,
    pub seed: u64,
    pub workers: usize,
    pub evidence: Option<PathBuf>,
    pub file: Option<PathBuf>,
    pub verif: PathBuf,
    pub repo: PathBuf,
    pub scale: f64,
    pub dump: Option<PathBuf>,
    pub digest_out: Option<PathBuf>,
    pub slice: bool,
}

fn parse_args() -> Args {
    let mut a = Args {
        cmd: String::new(),
        tier: std::env::var("VERIF_TIER").unwrap_or_else(|_| "quick".into()),
        seed: std::env::var("VERIF_SEED").ok().and_then(|s| s.parse().ok()).unwrap_or(1),
        workers: 16,
        evidence: None,
        file: None,
        verif: PathBuf::from("/verif"),
        repo: PathBuf::from("/repo"),
        scale: 1.0,
        dump: None,
        digest_out: None,
        slice: false,
    };
    let mut it = std::env::args().skip(1);
    while let Some(x) = it.next() {
        match x.as_str() {
            "--tier" => a.tier = it.next().unwrap_or_default(),
            "--seed" => a.seed = it.next().and_then(|s| s.parse().ok()).unwrap_or(1),
            "--workers" => a.workers = it.next().and_then(|s| s.parse().ok()).unwrap_or(16),
            "--evidence" => a.evidence = it.next().map(PathBuf::from),
            "--verif" => a.verif = it.next().map(PathBuf::from).unwrap(),
            "--repo" => a.repo = it.next().map(PathBuf::from).unwrap(),
            "--scale" => a.scale = it.next().and_then(|s| s.parse().ok()).unwrap_or(1.0),
            "--dump" => a.dump = it.next().map(PathBuf::from),
            "--selftest-slice" => a.slice = true,
            "--digest-out" => {
                a.digest_out = it.next().map(PathBuf::from);
                report::DIGEST.store(true, std::sync::atomic::Ordering::Relaxed);
            }
            _ if a.cmd.is_empty() => a.cmd = x,
            _ => a.file = Some(PathBuf::from(x)),
        }
    }
    if a.tier != "quick" && a.tier != "thorough" {
        eprintln!("harness error: unknown tier {:?}", a.tier);
        std::process::exit(2);
    }
    a
}

pub fn make_env(args: &Args, worker: usize) -> sim::Env {
    let shim = match shim::Shim::find() {
        Some(s) => s,
        None => {
            eprintln!("harness error: simlibc.so is not preloaded (run through bin/check)");
            std::process::exit(2);
        }
    };
    // fixed width: diagnostics contain this path and are truncated by length
    let scratch = PathBuf::from(format!("/dev/shm/verif-{:08}-{:03}", std::process::id(), worker));
    let _ = std::fs::remove_dir_all(&scratch);
    if let Err(e) = std::fs::create_dir_all(&scratch) {
        eprintln!("harness error: cannot create scratch dir {scratch:?}: {e}");
        std::process::exit(2);
    }
    sim::Env {
        shim,
        scratch,
        rcomp: args.verif.join(".build/repo-target/release/rcomp"),
        shim_so: args.verif.join(".build/simlibc.so"),
        // >= 40x the slowest compile of the corpus in this build (the C
        // grammar for GLR: about 1.5 s); see DESIGN.md 10.1
        timeout_ms: std::cell::Cell::new(std::env::var("VERIF_TIMEOUT_MS").ok().and_then(|s| s.parse().ok()).unwrap_or(60_000)),
        timeouts_seen: std::cell::Cell::new(0),
    }
}

fn cleanup(env: &sim::Env) {
    let _ = std::fs::remove_dir_all(&env.scratch);
}

fn now_s() -> f64 {
    // the only real-clock read of the harness; taken outside any run (the
    // shim is not armed here)
    std::time::SystemTime::now().duration_since(std::time::UNIX_EPOCH).map(|d| d.as_secs_f64()).unwrap_or(0.0)
}

fn scaled(n: u64, scale: f64) -> u64 {
    ((n as f64 * scale).ceil() as u64).max(1)
}

fn run_c17(args: &Args) -> i32 {
    let paths = Paths { verif: args.verif.clone(), repo: args.repo.clone() };
    let t0 = now_s();
    let ctx = c17::neighbours_ctx(&args.repo, &args.verif, args.seed);
    if ctx.corpus.is_empty() {
        eprintln!("harness error: no grammars found under {:?}", args.repo);
        return 2;
    }
    let n = ctx.corpus.len() as u64;
    // (stream, cases, worlds per case, rcomp vehicles allowed)
    let plan: Vec<(u64, u64, usize, bool)> = if args.tier == "quick" {
        vec![(0, scaled(n * 3, args.scale), 3, true), (1, scaled(400, args.scale), 3, true), (2, scaled(16 * c17::TOGGLES.len() as u64, args.scale), 1, true), (4, scaled(n * 2, args.scale), 3, true)]
    } else {
        vec![(0, scaled(n * 40, args.scale), 6, true), (1, scaled(30_000, args.scale), 6, true), (2, scaled(16 * c17::TOGGLES.len() as u64, args.scale), 1, true), (3, scaled(16 * (c17::TOGGLES.len() * c17::TOGGLES.len()) as u64, args.scale), 1, true), (4, scaled(n * 12, args.scale), 3, true)]
    };
    let summaries = match pool::fan_out(args.workers, &|w, nw| {
        let env = make_env(args, w);
        let v = c17::work(&env, &ctx, w, nw, &plan);
        cleanup(&env);
        v
    }) {
        Ok(s) => s,
        Err(e) => {
            eprintln!("harness error: {e}");
            return 2;
        }
    };
    let mut merged = Value::Null;
    for s in &summaries {
        report::merge(&mut merged, s);
    }
    if let Some(out) = &args.digest_out {
        let (n, h) = report::write_digests(&merged, Some(out));
        println!("digest: {n} runs, hash {h:016x}");
    }
    let st = &merged["stats"];
    let mut violations: Vec<Violation> = merged["violations"].as_array().cloned().unwrap_or_default().iter().filter_map(Violation::from_json).collect();
    violations.sort_by(|a, b| (a.index, &a.key).cmp(&(b.index, &b.key)));
    // minimise one violation per key (bounded)
    let env = make_env(args, 999);
    let mut seen: std::collections::BTreeSet<String> = Default::default();
    let mut minimised = vec![];
    for v in violations {
        if !seen.insert(v.key.clone()) {
            continue;
        }
        if minimised.len() >= 8 {
            break;
        }
        let mut v = v;
        if let Some(case) = c17::Case::from_json(&v.case) {
            if c17::still_fails(&env, &case, &v.class) {
                let m = c17::minimise(&env, &case, &v.class);
                v.key = c17::violation_key(&m, &v.class);
                v.case = m.to_json();
            } else {
                v.what.push_str(" [WARNING: did not reproduce on re-run; harness nondeterminism?]");
            }
        }
        minimised.push(v);
    }
    cleanup(&env);
    let wall = now_s() - t0;
    let compiles = st["compiles"].as_u64().unwrap_or(0);
    let mut samples = st["samples"].as_array().cloned().unwrap_or_default();
    samples.sort_by_key(|s| s.to_string());
    samples.truncate(3);
    let coverage = json!({
        "evaluations": compiles,
        "distinct_nontrivial": report::distinct(&st["nontrivial_pairs"]),
        "rule": "one evaluation = one compile of a grammar in one simulated world (forked child, shim-owned hash seed / dir order / clock / pid / tty / faults). A (grammar, settings) pair is distinct by content hash and non-trivial when the reference world compiled it Ok and at least one different world produced files that were byte-compared with the reference.",
        "samples": samples,
        "cases": st["cases"], "distinct_pairs": report::distinct(&st["pairs"]),
        "worlds_compared_ok": st["compared_ok"], "worlds_compared_err": st["compared_err"],
        "excluded_panicked_runs": st["excluded_panics"], "inconclusive_runs": st["inconclusive"],
        "outcome_classes": st["classes"], "vehicles": st["vehicles"],
        "faults_planned": st["faults_planned"], "faults_fired": st["faults_fired"],
        "io_events_simulated": st["io_events"], "clock_reads": st["clock_reads"], "pid_reads": st["pid_reads"],
        "tty_reads": st["tty_reads"], "dirs_permuted": st["dirs_permuted"],
        "hash_orders_distinct": report::distinct(&st["canaries"]),
        "distinct_io_traces": report::distinct(&st["traces"]),
        "world_dimensions_exercised": st["world_dims"],
        "cli_flags_swept_against_rcomp": st["flags_swept"],
        "cli_flag_reach_grammars_whose_api_output_changes": st["flag_reach"],
        "runs_per_hour": if wall > 0.0 { (compiles as f64 / wall * 3600.0) as u64 } else { 0 },
        "simulated_time": "event sequence numbers (rustemo reads no clock); see io_events_simulated",
        "components": {
            "real": ["rustemo-compiler (grammar parser, GrammarBuilder, LRTable, type inference, generators, actions merger, Settings, rcomp binary) built from /repo's working tree", "rustemo runtime", "std fs/env/HashMap, syn, prettyplease", "kernel tmpfs"],
            "simulated": ["hash-seed source (getrandom)", "clock", "pid", "isatty", "directory order", "EINTR / short read / short write"],
        },
        "exhaustive": false,
    });
    let rep = Report {
        property: "C17".into(),
        tier: args.tier.clone(),
        seed: args.seed,
        level: "exploration".into(),
        coverage,
        assumptions: vec![
            "the shim interposes every libc entry point the compiler uses to observe its environment (checked against nm -D of rcomp); a dependency that issued raw syscalls would escape it".into(),
            "outcome class of the rcomp vehicle is observed through the parser file, which the generator writes last and only on success".into(),
            "--dot/--trace/--print-table/-v only have side outputs; the oracle checks that they do not change the two files, not what they print".into(),
        ],
        wall_s: wall,
        violations: minimised,
    };
    let ev = args.evidence.clone().unwrap_or_else(|| args.verif.join("evidence/C17.json"));
    report::finish(&paths, rep, &ev)
}

fn run_c16(args: &Args) -> i32 {
    let paths = Paths { verif: args.verif.clone(), repo: args.repo.clone() };
    let t0 = now_s();
    let mut ctx = c16::Ctx { corpus: corpus::load(&args.repo, &args.verif.join("corpus/grammars")), seed: args.seed, paths: Paths { verif: args.verif.clone(), repo: args.repo.clone() } };
    if args.slice {
        // determinism self-test: a slice of the corpus, small files only
        ctx.corpus = ctx.corpus.into_iter().filter(|g| g.bytes.len() < 400).step_by(9).collect();
    }
    if ctx.corpus.is_empty() {
        eprintln!("harness error: no grammars found under {:?}", args.repo);
        return 2;
    }
    let thorough = args.tier == "thorough";
    let plan = c16::Plan {
        thorough,
        sampled_per_grammar: scaled(if thorough { 3000 } else { 150 }, args.scale),
        generated: scaled(if thorough { 20_000 } else { 600 }, args.scale),
        syscall_grammars: if thorough { usize::MAX } else { (24.0 * args.scale).ceil() as usize },
        rcomp_every: if thorough { 200 } else { 100 },
        product_stride: if args.slice { 25 } else { 1 },
    };
    let summaries = match pool::fan_out(args.workers, &|w, nw| {
        let env = make_env(args, w);
        let v = c16::work(&env, &ctx, w, nw, &plan);
        cleanup(&env);
        v
    }) {
        Ok(s) => s,
        Err(e) => {
            eprintln!("harness error: {e}");
            return 2;
        }
    };
    let mut merged = Value::Null;
    for s in &summaries {
        report::merge(&mut merged, s);
    }
    if let Some(out) = &args.digest_out {
        let (n, h) = report::write_digests(&merged, Some(out));
        println!("digest: {n} runs, hash {h:016x}");
    }
    let st = &merged["stats"];
    let mut violations: Vec<Violation> = merged["violations"].as_array().cloned().unwrap_or_default().iter().filter_map(Violation::from_json).collect();
    violations.sort_by(|a, b| (a.index, &a.key).cmp(&(b.index, &b.key)));
    let env = make_env(args, 999);
    let findings = report::load_findings(&paths).unwrap_or_default();
    let mut seen: std::collections::BTreeSet<String> = Default::default();
    let mut minimised = vec![];
    let mut hang_reports = 0;
    for mut v in violations {
        if !seen.insert(v.key.clone()) {
            continue;
        }
        // a change that makes thousands of inputs hang gives thousands of
        // content keys: report a handful
        if v.class == "hang" && minimised.iter().filter(|m: &&Violation| m.class == "hang").count() >= 5 {
            continue;
        }
        let known = findings.iter().any(|f| f.property == "C16" && f.status == "known" && f.key == v.key);
        if !known && minimised.iter().filter(|m: &&Violation| !findings.iter().any(|f| f.key == m.key)).count() < 12 {
            if let Some(case) = c16::Case::from_json(&v.case) {
                if v.class == "hang" && hang_reports >= 2 {
                    // further hangs are reported unminimised
                } else if c16::still_fails(&env, &ctx, &case, &v.key) {
                    let m = c16::minimise(&env, &ctx, &case, &v.key);
                    if v.class == "hang" {
                        hang_reports += 1;
                        let o = c16::run_case(&env, &m);
                        if let Some((_, k, _)) = c16::judge(&ctx, &m, &o) {
                            v.key = k;
                        }
                    }
                    v.case = m.to_json();
                } else {
                    v.what.push_str(" [WARNING: did not reproduce on re-run]");
                }
            }
        }
        minimised.push(v);
    }
    cleanup(&env);
    let wall = now_s() - t0;
    let cases = st["cases"].as_u64().unwrap_or(0);
    let mut samples = st["samples"].as_array().cloned().unwrap_or_default();
    samples.sort_by_key(|s| s.to_string());
    samples.truncate(6);
    let coverage = json!({
        "evaluations": cases,
        "distinct_nontrivial": report::distinct(&st["nontrivial"]),
        "rule": "one evaluation = one compile (forked child) of a grammar file whose stored bytes were damaged by a storage fault, or during which one syscall was made to fail by the shim. Distinct by hash of (stored bytes, settings, syscall fault); non-trivial = a fault was actually applied (fault-free baseline runs are counted in evaluations only).",
        "samples": samples,
        "cases_by_fault_kind": st["by_fault"],
        "outcomes": st["outcomes"],
        "diagnostic_classes_reached": st["err_classes"],
        "distinct_cases": report::distinct(&st["contents"]),
        "syscall_events_enumerated_by_call": st["syscall_events"],
        "syscall_faults_planned": st["syscall_faults_planned"],
        "syscall_faults_fired_by_call": st["syscall_faults_fired"],
        "io_events_simulated": st["io_events"],
        "panic_sites_hit": st["panic_sites"],
        "exhaustive_subspaces": if thorough { json!(["torn (every prefix length)", "lost line / head run / tail run / interior runs of 2-4 lines", "duplicated line / run of 2-3 lines", "zero-filled tail", "rule-shape product: every ordered choice of 2-3 alternatives out of 14 collection-rule shapes x @vec x element kind x LR/GLR (fault-free)", "every single bit flip (grammars <= 5 KB)", "every 1-3 byte run written 12 times (grammars <= 5 KB)", "single failing syscall: every I/O event x every errno legal for its call class"]) } else { json!(["torn (every prefix length)", "lost line / head run / tail run / interior runs of 2-4 lines", "duplicated line / run of 2-3 lines", "zero-filled tail", "rule-shape product: every ordered choice of 2-3 alternatives out of 14 collection-rule shapes x @vec x element kind x LR/GLR (fault-free)", "single failing syscall on the first grammars of the corpus"]) },
        "exhaustive": false,
        "runs_per_hour": if wall > 0.0 { (cases as f64 / wall * 3600.0) as u64 } else { 0 },
        "components": {
            "real": ["rustemo-compiler built from /repo's working tree (debug assertions and overflow checks on, as in a build.rs)", "rcomp binary (release) for a sampled subset", "std fs, syn, prettyplease", "kernel tmpfs"],
            "simulated": ["storage faults applied to the stored grammar / actions file", "failing syscalls (errno injected by the shim at a chosen I/O event)", "hash seed, clock, pid, tty (fixed reference world)"],
        },
    });
    let rep = Report {
        property: "C16".into(),
        tier: args.tier.clone(),
        seed: args.seed,
        level: "fault_enumeration".into(),
        coverage,
        assumptions: vec![
            "claimed for storage and syscall faults on grammar files of the corpus (plus a fault-free baseline of corpus and generated grammars), not for every conceivable text".into(),
            "a panic is identified by (source file, text of the panicking line, normalised message)".into(),
            "grammars above 5 KB take part in sampled batches only".into(),
        ],
        wall_s: wall,
        violations: minimised,
    };
    let ev = args.evidence.clone().unwrap_or_else(|| args.verif.join("evidence/C16.json"));
    report::finish(&paths, rep, &ev)
}

fn run_c18(args: &Args) -> i32 {
    let paths = Paths { verif: args.verif.clone(), repo: args.repo.clone() };
    let t0 = now_s();
    let ctx = c18::Ctx { corpus: corpus::load(&args.repo, &args.verif.join("corpus/grammars")), seed: args.seed };
    if ctx.corpus.is_empty() {
        eprintln!("harness error: no grammars found under {:?}", args.repo);
        return 2;
    }
    let n = ctx.corpus.len() as u64;
    let thorough = args.tier == "thorough";
    // (stream: 0 corpus / 1 generated, histories, with faults) -- fault-free and
    // fault-injecting configurations are separate batches
    let plan: Vec<(u64, u64, bool)> = if thorough {
        vec![(0, scaled(n * 300, args.scale), false), (1, scaled(40_000, args.scale), false), (0, scaled(n * 60, args.scale), true), (1, scaled(8_000, args.scale), true)]
    } else {
        vec![(0, scaled(n * 12, args.scale), false), (1, scaled(500, args.scale), false), (0, scaled(n * 3, args.scale), true), (1, scaled(150, args.scale), true)]
    };
    let known: std::collections::BTreeSet<String> = report::load_findings(&paths).unwrap_or_default().into_iter().filter(|f| f.property == "C18" && f.status == "known").map(|f| f.key).collect();
    c18::TOLERATE.with(|t| *t.borrow_mut() = known.clone());
    let summaries = match pool::fan_out(args.workers, &|w, nw| {
        let env = make_env(args, w);
        let v = c18::work(&env, &ctx, w, nw, &plan);
        cleanup(&env);
        v
    }) {
        Ok(s) => s,
        Err(e) => {
            eprintln!("harness error: {e}");
            return 2;
        }
    };
    let mut merged = Value::Null;
    for s in &summaries {
        report::merge(&mut merged, s);
    }
    if let Some(out) = &args.digest_out {
        let (n, h) = report::write_digests(&merged, Some(out));
        println!("digest: {n} runs, hash {h:016x}");
    }
    let st = &merged["stats"];
    let mut violations: Vec<Violation> = merged["violations"].as_array().cloned().unwrap_or_default().iter().filter_map(Violation::from_json).collect();
    violations.sort_by(|a, b| (a.index, &a.key).cmp(&(b.index, &b.key)));
    let env = make_env(args, 999);
    let mut seen: std::collections::BTreeSet<String> = Default::default();
    let mut minimised = vec![];
    for mut v in violations {
        if !seen.insert(v.key.clone()) {
            continue;
        }
        if minimised.len() < 10 {
            if let Some(case) = c18::Case::from_json(&v.case) {
                if matches!(c18::replay(&env, &case), Some((k, _)) if k == v.class) {
                    let m = c18::minimise(&env, &case, &v.class);
                    v.case = m.to_json();
                } else {
                    v.what.push_str(" [WARNING: did not reproduce on re-run]");
                }
            }
        }
        minimised.push(v);
    }
    cleanup(&env);
    let wall = now_s() - t0;
    let mut samples = st["samples"].as_array().cloned().unwrap_or_default();
    samples.sort_by_key(|s| s.to_string());
    samples.truncate(3);
    let histories = st["histories"].as_u64().unwrap_or(0);
    let coverage = json!({
        "evaluations": histories,
        "distinct_nontrivial": report::distinct(&st["nontrivial"]),
        "rule": "one evaluation = one edit/regenerate history of the actions file of one (grammar, settings): <= 8 seeded user operations (delete subsets of generated items incl. single items that split a rule's items, rewrite bodies/signatures/types, add user items, swap, restore a snapshot, break/repair the file) interleaved with regenerations, always ending in regen, regen. Every regeneration is checked (K1 preservation, K2 provenance, K3 exactly-the-missing, K4 no duplicates, K5 idempotence, K6 force = golden, K7 Err leaves bytes unchanged). Distinct by hash of (grammar, settings, edit descriptions); non-trivial = at least one edit preceded a regeneration.",
        "samples": samples,
        "histories_skipped_grammar_does_not_compile": st["histories_skipped"],
        "distinct_histories": report::distinct(&st["distinct"]),
        "distinct_grammars": report::distinct(&st["grammars"]),
        "operations_by_kind": st["ops"],
        "regens_checked": st["regens_checked"], "regens_err": st["regens_err"],
        "rules_evaluated": st["rules_checked"],
        "items_preserved_total": st["items_preserved"], "items_appended_total": st["items_appended"],
        "single_item_deletions": st["split_deletions"],
        "faults_fired": st["faults_fired"], "torn_actions_file_counted_not_alarmed": st["torn_actions_file"],
        "failing_stat_treated_as_missing_file_counted_not_alarmed": st["stat_fault_runs"],
        "compiles": st["compiles"],
        "runs_per_hour": if wall > 0.0 { (histories as f64 / wall * 3600.0) as u64 } else { 0 },
        "components": {
            "real": ["Settings::process_grammar with force(false)/(true) from /repo's working tree", "syn 1.0 / prettyplease 0.1 (same versions as the compiler, shared lock file)", "kernel tmpfs holding the actions file"],
            "simulated": ["the user who edits the actions file (syn-level and raw-text edits)", "benign and failing I/O faults on regeneration (fault batch only)"],
            "model": ["ordered list of top-level items, equality = prettyplease normal form of the item"],
        },
        "exhaustive": false,
    });
    let rep = Report {
        property: "C18".into(),
        tier: args.tier.clone(),
        seed: args.seed,
        level: "exploration".into(),
        coverage,
        assumptions: vec![
            "item equality is equality of the prettyplease normal form (regeneration is documented to re-print the file); non-doc comments are the documented exception".into(),
            "the fixed header (use items, Input, Ctx, Token) is never deleted by the simulated user".into(),
            "a failed write of the actions file may tear it (std::fs::write truncates first): counted, not alarmed -- C18 does not quantify over crash points".into(),
        ],
        wall_s: wall,
        violations: minimised,
    };
    let ev = args.evidence.clone().unwrap_or_else(|| args.verif.join("evidence/C18.json"));
    report::finish(&paths, rep, &ev)
}

fn run_replay(args: &Args) -> i32 {
    let paths = Paths { verif: args.verif.clone(), repo: args.repo.clone() };
    let _ = &paths;
    let file = match &args.file {
        Some(f) => f.clone(),
        None => {
            eprintln!("usage: rcsim replay <file>");
            return 2;
        }
    };
    let v: Value = match std::fs::read_to_string(&file).ok().and_then(|t| serde_json::from_str(&t).ok()) {
        Some(v) => v,
        None => {
            eprintln!("harness error: cannot read replay file {file:?}");
            return 2;
        }
    };
    let env = make_env(args, 998);
    let prop = v["property"].as_str().unwrap_or("");
    let class = v["class"].as_str().unwrap_or("");
    let code = match prop {
        "C17" => match c17::Case::from_json(&v["case"]) {
            Some(case) => {
                if c17::still_fails(&env, &case, class) {
                    println!("VIOLATION property=C17 replay={}", file.display());
                    println!("  class={} key={}", class, v["key"].as_str().unwrap_or(""));
                    1
                } else {
                    println!("replay: property C17 holds on this case now (class {class} not reproduced)");
                    0
                }
            }
            None => 2,
        },
        "C16" => match c16::Case::from_json(&v["case"]) {
            Some(case) => {
                let ctx = c16::Ctx { corpus: vec![], seed: 0, paths: Paths { verif: args.verif.clone(), repo: args.repo.clone() } };
                let o = c16::run_case(&env, &case);
                match c16::judge(&ctx, &case, &o) {
                    Some((class, key, what)) => {
                        println!("VIOLATION property=C16 replay={}", file.display());
                        println!("  class={class} key={key}");
                        println!("  {what}");
                        1
                    }
                    None => {
                        println!("replay: property C16 holds on this case now (outcome {})", o.class.tag());
                        0
                    }
                }
            }
            None => 2,
        },
        "C18" => match c18::Case::from_json(&v["case"]) {
            Some(case) => match c18::replay(&env, &case) {
                Some((class, what)) => {
                    println!("VIOLATION property=C18 replay={}", file.display());
                    println!("  class={class}");
                    println!("  {what}");
                    1
                }
                None => {
                    println!("replay: property C18 holds on this history now");
                    0
                }
            },
            None => 2,
        },
        _ => {
            eprintln!("harness error: unknown property in replay file");
            2
        }
    };
    cleanup(&env);
    code
}

fn main() {
    let args = parse_args();
    let code = match args.cmd.as_str() {
        "c16" => run_c16(&args),
        "c17" => run_c17(&args),
        "c18" => run_c18(&args),
        "replay" => run_replay(&args),
        "gen-one" => {
            let ss: u64 = args.file.as_ref().and_then(|f| f.to_string_lossy().parse().ok()).unwrap_or(0);
            let mut rng = prng::Rng::new(ss);
            print!("{}", gen::generate(&mut rng).text);
            0
        }
        "dump-gen" => {
            dump_gen(args.seed, 6);
            0
        }
        _ => {
            eprintln!("usage: rcsim <c16|c17|c18|replay|selftest> [--tier quick|thorough] [--seed N] [--workers W]");
            2
        }
    };
    std::process::exit(code);
}

#[allow(dead_code)]
pub fn dump_gen(seed: u64, n: u64) {
    for i in 0..n {
        let mut rng = prng::Rng::new(prng::sub_seed(seed, 1, i));
        let g = gen::generate(&mut rng);
        println!("---- {i} tags={:?}\n{}", g.tags, g.text);
    }
}
