//! Sentences of the psim corpus (corpus/psim/manifest.json).

use serde_json::Value;
use std::path::Path;

#[derive(Clone, Debug)]
pub struct Sentence {
    pub bytes: Vec<u8>,
    pub valid: bool,
}

#[derive(Clone, Debug)]
pub struct Entry {
    pub id: String,
    pub sentences: Vec<Sentence>,
    pub c12: String,
    pub w_eligible: bool,
    pub w_ascii_only: bool,
}

fn unhex(s: &str) -> Vec<u8> {
    (0..s.len() / 2).filter_map(|i| u8::from_str_radix(&s[2 * i..2 * i + 2], 16).ok()).collect()
}

pub fn load(verif: &Path) -> Result<Vec<Entry>, String> {
    let p = verif.join("corpus/psim/manifest.json");
    let v: Value = serde_json::from_str(&std::fs::read_to_string(&p).map_err(|e| format!("{p:?}: {e}"))?).map_err(|e| format!("{p:?}: {e}"))?;
    let mut out = vec![];
    // seeded generated grammars (psim/build.rs), sentences by construction
    let gen: Value = serde_json::from_str(include_str!(concat!(env!("OUT_DIR"), "/gen_manifest.json"))).map_err(|e| format!("gen_manifest: {e}"))?;
    let mut all: Vec<Value> = v["entries"].as_array().ok_or("entries")?.clone();
    all.extend(gen["entries"].as_array().cloned().unwrap_or_default());
    for e in &all {
        let mut sentences = vec![];
        for s in e["sentences"].as_array().cloned().unwrap_or_default() {
            sentences.push(Sentence { bytes: s["text"].as_str().unwrap_or("").as_bytes().to_vec(), valid: s["valid"].as_bool().unwrap_or(false) });
        }
        for s in e.get("sentences_hex").and_then(|x| x.as_array()).cloned().unwrap_or_default() {
            sentences.push(Sentence { bytes: unhex(s.as_str().unwrap_or("")), valid: true });
        }
        out.push(Entry {
            id: e["id"].as_str().unwrap_or("").to_string(),
            sentences,
            c12: e["c12"].as_str().unwrap_or("").to_string(),
            w_eligible: e["w_eligible"].as_bool().unwrap_or(false),
            w_ascii_only: e.get("w_ascii_only").and_then(|x| x.as_bool()).unwrap_or(false),
        });
    }
    Ok(out)
}
