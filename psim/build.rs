//! Generates the corpus parsers with /repo's *current* compiler and writes
//! `$OUT_DIR/parsers.rs`, which `include!`s each generated module inside a
//! wrapper module and registers one simulation case per parser
//! (DESIGN.md 4/C15 "Seams owned by the simulator").

use rustemo_compiler::{BuilderType, GeneratorTableType, LexerType, ParserAlgo, Settings};
use serde_json::Value;
use std::fmt::Write as _;
use std::path::{Path, PathBuf};

fn pascal(s: &str) -> String {
    let mut out = String::new();
    let mut up = true;
    for c in s.chars() {
        if c == '_' || c == '-' {
            up = true;
        } else if up {
            out.extend(c.to_uppercase());
            up = false;
        } else {
            out.push(c);
        }
    }
    out
}

fn main() {
    let verif = std::env::var("VERIF_DIR").unwrap_or_else(|_| "/verif".into());
    let corpus = PathBuf::from(&verif).join("corpus/psim");
    let manifest_path = corpus.join("manifest.json");
    println!("cargo:rerun-if-changed={}", manifest_path.display());
    println!("cargo:rerun-if-env-changed=VERIF_DIR");
    // rebuild whenever the compiler or runtime sources change
    println!("cargo:rerun-if-changed=/repo/rustemo-compiler/src");
    println!("cargo:rerun-if-changed=/repo/rustemo/src");
    let out_dir = PathBuf::from(std::env::var("OUT_DIR").unwrap());
    let manifest: Value = serde_json::from_str(&std::fs::read_to_string(&manifest_path).expect("corpus manifest")).expect("manifest json");
    let mut code = String::new();
    let mut registry = String::new();
    for e in manifest["entries"].as_array().expect("entries") {
        let id = e["id"].as_str().unwrap();
        let stem = e["stem"].as_str().unwrap();
        let glr = e["algo"].as_str() == Some("glr");
        let b = |k: &str, d: bool| e.get(k).and_then(|v| v.as_bool()).unwrap_or(d);
        let lexer = e.get("lexer").and_then(|v| v.as_str()).unwrap_or("default");
        let bytes_input = e.get("input").and_then(|v| v.as_str()) == Some("bytes");
        let grammar_src = corpus.join(id).join(format!("{stem}.rustemo"));
        println!("cargo:rerun-if-changed={}", grammar_src.display());
        let text = std::fs::read_to_string(&grammar_src).expect("grammar");
        let has_layout = text.lines().any(|l| {
            let l = l.trim_start();
            l.to_lowercase().starts_with("layout") && l[6..].trim_start().starts_with(':')
        });
        for (layout, arrays) in [("fn", false), ("arr", true)] {
            let modname = format!("{id}_{layout}");
            let dir = out_dir.join(&modname);
            let _ = std::fs::remove_dir_all(&dir);
            std::fs::create_dir_all(&dir).unwrap();
            let gpath = dir.join(format!("{stem}.rustemo"));
            std::fs::write(&gpath, &text).unwrap();
            let mut s = Settings::new()
                .root_dir(dir.clone())
                .out_dir_root(dir.clone())
                .out_dir_actions_root(dir.clone())
                .force(true)
                .builder_type(BuilderType::Generic)
                .generator_table_type(if arrays { GeneratorTableType::Arrays } else { GeneratorTableType::Functions });
            if glr {
                s = s.parser_algo(ParserAlgo::GLR);
                if let Some(go) = e.get("grammar_order").and_then(|v| v.as_bool()) {
                    s = s.lexical_disamb_grammar_order(go);
                }
            } else {
                s = s.prefer_shifts(b("prefer_shifts", false));
            }
            s = s
                .partial_parse(b("partial", false))
                .fancy_regex(b("fancy", false))
                .lexical_disamb_most_specific(b("most_specific", true))
                .lexical_disamb_longest_match(b("longest_match", true));
            if lexer != "default" {
                s = s.lexer_type(LexerType::Custom).input_type("[u8]".into());
            }
            if let Err(err) = s.process_grammar(&gpath) {
                panic!("psim corpus entry {id} ({layout}) does not compile with /repo's compiler: {err}");
            }
            let gen_path = dir.join(format!("{stem}.rs"));
            let gen = std::fs::read_to_string(&gen_path).expect("generated parser");
            let file = syn::parse_file(&gen).expect("generated parser parses");
            let mut kinds: Vec<String> = vec![];
            let mut def_name = String::new();
            for item in &file.items {
                match item {
                    syn::Item::Enum(en) if en.ident == "TokenKind" => {
                        kinds = en.variants.iter().map(|v| v.ident.to_string()).collect();
                    }
                    syn::Item::Static(st) if st.ident == "PARSER_DEFINITION" => {
                        if let syn::Type::Path(p) = &*st.ty {
                            def_name = p.path.segments.last().unwrap().ident.to_string();
                        }
                    }
                    _ => {}
                }
            }
            assert!(!kinds.is_empty() && !def_name.is_empty(), "trusted item names not found in generated parser {modname}");
            writeln!(code, "pub mod {modname} {{\n    #![allow(warnings, clippy::all)]\n    include!({:?});", gen_path.display().to_string()).unwrap();
            writeln!(code, "    pub const ALL_TOKEN_KINDS: &[TokenKind] = &[{}];", kinds.iter().map(|k| format!("TokenKind::{k}")).collect::<Vec<_>>().join(", ")).unwrap();
            writeln!(code, "    pub const TOKEN_KIND_NAMES: &[&str] = &[{}];", kinds.iter().map(|k| format!("{k:?}")).collect::<Vec<_>>().join(", ")).unwrap();
            writeln!(code, "    pub type Def = {def_name};").unwrap();
            if lexer != "default" {
                // the repository's documented custom lexers, copied verbatim
                let n = if lexer == "custom1" { 1 } else { 2 };
                writeln!(code, "    pub use crate::parsers::{modname} as custom_lexer_{n};").unwrap();
                writeln!(code, "    pub mod user_lexer {{ #![allow(warnings)] include!({:?}); }}", format!("{verif}/psim/src/lexers/custom_lexer_{n}_lexer.rs")).unwrap();
            }
            writeln!(code, "}}").unwrap();
            let partial = b("partial", false);
            let skip_ws = !has_layout;
            let _ = pascal(stem);
            let mac = match (glr, lexer) {
                (false, "default") => format!("lr_case!({modname}, {id:?}, {layout:?}, {partial}, {has_layout}, {skip_ws})"),
                (true, "default") => format!("glr_case!({modname}, {id:?}, {layout:?}, {partial}, {has_layout}, {skip_ws}, {})", b("cyclic", false)),
                (false, "custom1") => format!("lr_bytes_case!({modname}, {id:?}, {layout:?}, MyCustomLexer1)"),
                (false, "custom2") => format!("lr_bytes_case!({modname}, {id:?}, {layout:?}, MyCustomLexer2)"),
                _ => panic!("unsupported combination for {id}"),
            };
            let _ = bytes_input;
            writeln!(registry, "        {mac},").unwrap();
        }
    }
    writeln!(code, "pub fn registry() -> Vec<Box<dyn crate::case::ParserCase>> {{\n    vec![\n{registry}    ]\n}}").unwrap();
    std::fs::write(out_dir.join("parsers.rs"), code).unwrap();
    let _ = Path::new("");
}
