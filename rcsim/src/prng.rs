//! One integer decides everything (DESIGN.md 3.2): splitmix64 for seed
//! derivation, xoshiro256** for the per-run stream.  No `rand`, no clock.

pub fn splitmix64(x: u64) -> u64 {
    let mut z = x.wrapping_add(0x9E3779B97F4A7C15);
    z = (z ^ (z >> 30)).wrapping_mul(0xBF58476D1CE4E5B9);
    z = (z ^ (z >> 27)).wrapping_mul(0x94D049BB133111EB);
    z ^ (z >> 31)
}

/// Sub-seed of run `idx` in stream `stream` of master seed `seed`.
pub fn sub_seed(seed: u64, stream: u64, idx: u64) -> u64 {
    splitmix64(splitmix64(seed ^ stream.wrapping_mul(0xA24BAED4963EE407)) ^ idx.wrapping_mul(0x9FB21C651E98DF25))
}

#[derive(Clone, Debug)]
pub struct Rng {
    s: [u64; 4],
}

impl Rng {
    pub fn new(seed: u64) -> Self {
        let mut x = seed;
        let mut s = [0u64; 4];
        for v in s.iter_mut() {
            x = x.wrapping_add(0x9E3779B97F4A7C15);
            *v = splitmix64(x);
        }
        if s == [0; 4] {
            s[0] = 1;
        }
        Rng { s }
    }
    pub fn next_u64(&mut self) -> u64 {
        let r = self.s[1].wrapping_mul(5).rotate_left(7).wrapping_mul(9);
        let t = self.s[1] << 17;
        self.s[2] ^= self.s[0];
        self.s[3] ^= self.s[1];
        self.s[1] ^= self.s[2];
        self.s[0] ^= self.s[3];
        self.s[2] ^= t;
        self.s[3] = self.s[3].rotate_left(45);
        r
    }
    /// Uniform in 0..n (n > 0).
    pub fn below(&mut self, n: u64) -> u64 {
        debug_assert!(n > 0);
        // multiply-shift; bias is irrelevant here
        ((self.next_u64() as u128 * n as u128) >> 64) as u64
    }
    pub fn usize(&mut self, n: usize) -> usize {
        self.below(n as u64) as usize
    }
    pub fn range(&mut self, lo: usize, hi_incl: usize) -> usize {
        lo + self.usize(hi_incl - lo + 1)
    }
    pub fn chance(&mut self, num: u64, den: u64) -> bool {
        self.below(den) < num
    }
    pub fn pick<'a, T>(&mut self, xs: &'a [T]) -> &'a T {
        &xs[self.usize(xs.len())]
    }
    pub fn shuffle<T>(&mut self, xs: &mut [T]) {
        for i in (1..xs.len()).rev() {
            let j = self.usize(i + 1);
            xs.swap(i, j);
        }
    }
}

/// FNV-1a 64 for content hashes in evidence (no HashMap, no RandomState).
pub fn fnv64(data: &[u8]) -> u64 {
    let mut h: u64 = 0xcbf29ce484222325;
    for b in data {
        h ^= *b as u64;
        h = h.wrapping_mul(0x100000001b3);
    }
    h
}
