//! C15 -- parsing is total: any input and lexer give Ok or Err, never a
//! panic or hang (DESIGN.md 4/C15).

use crate::case::*;
use crate::corpus::{self, Entry};
use crate::forkrun::{fork_collect, ChildEnd};
use crate::prng::{fnv64, sub_seed, Rng};
use crate::report::{self, Paths, Report, Violation};
use crate::shim::{Shim, F_EINTR, F_EOF, F_ERRNO, F_SHORT};
use crate::Args;
use serde_json::{json, Value};
use std::collections::{BTreeMap, BTreeSet};
use std::path::{Path, PathBuf};

#[derive(Clone, Debug, PartialEq, Eq)]
pub struct IoFault {
    pub event: u64,
    pub kind: u8,
    pub arg: i32,
}

/// An explicit, self-contained case.
#[derive(Clone, Debug)]
pub struct Case {
    pub parser: String,
    pub layout: String,
    pub input: Vec<u8>,
    pub faults: Vec<LexFault>,
    pub ignore_expected: bool,
    pub via_file: bool,
    pub io_faults: Vec<IoFault>,
    /// inputs parsed before `input` with the *same parser value* (reuse)
    pub seq_prefix: Vec<Vec<u8>>,
    /// what was done to the stream (descriptive)
    pub damage: String,
    /// short fault class for statistics
    pub fclass: &'static str,
}

impl Case {
    pub fn to_json(&self) -> Value {
        let enc = |b: &Vec<u8>| match std::str::from_utf8(b) {
            Ok(t) => json!({"text": t}),
            Err(_) => json!({"hex": b.iter().map(|x| format!("{x:02x}")).collect::<String>()}),
        };
        let input = enc(&self.input);
        let prefix: Vec<Value> = self.seq_prefix.iter().map(enc).collect();
        json!({"kind": "c15", "seq_prefix": prefix, "parser": self.parser, "layout": self.layout, "input": input, "damage": self.damage,
            "lexer_faults": self.faults.iter().map(|f| json!({"at_call": f.at_call, "kind": f.kind.name(), "param": f.param})).collect::<Vec<_>>(),
            "ignore_expected": self.ignore_expected, "via_file": self.via_file,
            "io_faults": self.io_faults.iter().map(|f| json!({"event": f.event, "kind": f.kind, "arg": f.arg})).collect::<Vec<_>>()})
    }
    pub fn from_json(v: &Value) -> Option<Case> {
        let dec = |x: &Value| -> Option<Vec<u8>> {
            if let Some(t) = x.get("text").and_then(|t| t.as_str()) {
                Some(t.as_bytes().to_vec())
            } else {
                let h = x.get("hex")?.as_str()?;
                (0..h.len() / 2).map(|i| u8::from_str_radix(&h[2 * i..2 * i + 2], 16).ok()).collect::<Option<Vec<u8>>>()
            }
        };
        let input = dec(&v["input"])?;
        let seq_prefix: Vec<Vec<u8>> = v.get("seq_prefix").and_then(|a| a.as_array()).map(|a| a.iter().filter_map(dec).collect()).unwrap_or_default();
        Some(Case {
            seq_prefix,
            parser: v["parser"].as_str()?.into(),
            layout: v["layout"].as_str()?.into(),
            input,
            faults: v["lexer_faults"]
                .as_array()?
                .iter()
                .map(|f| Some(LexFault { at_call: f["at_call"].as_u64()?, kind: FaultKind::from_name(f["kind"].as_str()?)?, param: f["param"].as_u64()? as u32 }))
                .collect::<Option<Vec<_>>>()?,
            ignore_expected: v["ignore_expected"].as_bool()?,
            via_file: v["via_file"].as_bool()?,
            io_faults: v["io_faults"]
                .as_array()?
                .iter()
                .map(|f| Some(IoFault { event: f["event"].as_u64()?, kind: f["kind"].as_u64()? as u8, arg: f["arg"].as_i64()? as i32 }))
                .collect::<Option<Vec<_>>>()?,
            damage: v["damage"].as_str().unwrap_or("").into(),
            fclass: "replay",
        })
    }
}

pub struct Runner {
    pub registry: Vec<Box<dyn ParserCase>>,
    pub shim: Option<Shim>,
    pub scratch: PathBuf,
    pub paths: Paths,
}

impl Runner {
    pub fn new(args: &Args, tag: usize) -> Runner {
        let scratch = PathBuf::from(format!("/dev/shm/verif-psim-{}-{}", std::process::id(), tag));
        let _ = std::fs::remove_dir_all(&scratch);
        let _ = std::fs::create_dir_all(&scratch);
        let shim = Shim::find();
        if let Some(s) = &shim {
            s.set_hash_seed(7);
        }
        install_panic_hook();
        Runner { registry: crate::parsers::registry(), shim, scratch, paths: Paths { verif: args.verif.clone(), repo: args.repo.clone() } }
    }
    pub fn cleanup(&self) {
        let _ = std::fs::remove_dir_all(&self.scratch);
    }
    pub fn parser(&self, id: &str, layout: &str) -> Option<&dyn ParserCase> {
        self.registry.iter().find(|p| p.id() == id && p.layout() == layout).map(|b| &**b)
    }

    pub fn run(&self, case: &Case, record: bool) -> Option<RunOut> {
        let p = self.parser(&case.parser, &case.layout)?;
        let mut cfg = RunCfg { faults: case.faults.clone(), ignore_expected: case.ignore_expected, budget: 0, record_calls: record, via_file: None };
        if case.input.len() > LONG_INPUT {
            cfg.budget = if p.glr() { 600_000 } else { 2_500_000 };
        }
        if case.via_file {
            let path = self.scratch.join("input.txt");
            if std::fs::write(&path, &case.input).is_err() {
                return None;
            }
            cfg.via_file = Some(path);
            if let Some(s) = &self.shim {
                s.reset();
                s.set_root(&self.scratch.to_string_lossy());
                for f in &case.io_faults {
                    s.add_fault(f.event, f.kind, f.arg);
                }
                s.arm(true);
            }
        }
        let out = if case.seq_prefix.is_empty() && case.input.len() > LONG_INPUT {
            // "any length": a long stream is parsed on a thread with the stack a
            // `std::thread::spawn` gives by default (2 MiB), fixed here so that
            // the verdict does not depend on the ulimit of whoever runs the check
            let input = &case.input;
            let cfg = &cfg;
            std::thread::scope(|sc| {
                std::thread::Builder::new().stack_size(LONG_STACK).spawn_scoped(sc, move || p.run(input, cfg)).ok().and_then(|h| h.join().ok())
            })?
        } else if case.seq_prefix.is_empty() {
            p.run(&case.input, &cfg)
        } else {
            let mut all = case.seq_prefix.clone();
            all.push(case.input.clone());
            match p.run_seq(&all, &cfg).pop() {
                Some(o) => o,
                None => return None,
            }
        };
        if case.via_file {
            if let Some(s) = &self.shim {
                s.arm(false);
            }
        }
        Some(out)
    }

    pub fn io_stat(&self) -> (u64, u64, u64, u64) {
        match &self.shim {
            Some(s) => {
                let st = s.stat();
                (st.events, st.eintr, st.short, st.errno)
            }
            None => (0, 0, 0, 0),
        }
    }
    pub fn io_events(&self) -> Vec<crate::shim::SimEvent> {
        self.shim.as_ref().map(|s| s.log()).unwrap_or_default()
    }
}

fn normalise_panic(p: &PanicInfo) -> PanicInfo {
    let mut q = p.clone();
    if let Some(i) = q.file.find("/out/") {
        q.file = format!("generated:{}", &q.file[i + 5..]);
    }
    q
}

/// None = within the property.
pub fn judge(r: &Runner, case: &Case, o: &RunOut) -> Option<(String, String, String)> {
    let p = r.parser(&case.parser, &case.layout)?;
    match &o.out {
        Out::Panic(pi) => {
            // a panic raised by the user's lexer itself (the repository's
            // documented lexers index past the end of a truncated stream) is
            // not rustemo's
            if pi.file.contains("/psim/src/lexers/") {
                return None;
            }
            let n = normalise_panic(pi);
            let key = if n.file.starts_with("generated:") { format!("panic|{}|{}", n.file.split(':').nth(1).unwrap_or(""), report::normalise_msg(&n.msg)) } else { format!("panic|{}", report::panic_key(&r.paths, &n)) };
            Some(("panic".into(), key, format!("parse panicked at {}:{} msg={:?} [{} {}; {}]", n.file, n.line, n.msg.chars().take(120).collect::<String>(), case.parser, case.layout, case.damage)))
        }
        // long streams are about stack depth, panics and aborts: GLR is worst-case
        // cubic and the layout parser works per byte, so a long stream may
        // legitimately need more seam events than the (reduced) budget it runs
        // under; the hang verdict is given on ordinary-length inputs only
        Out::Budget if case.input.len() > LONG_INPUT => None,
        Out::Budget => Some(("hang".into(), format!("hang|{}", case.parser), format!("parse exceeded the budget of seam events (deterministic hang detector) [{} {}; {}]", case.parser, case.layout, case.damage))),
        Out::Ok { .. } => {
            // "must surface as an error result", where it is decidable
            let must_err = !p.glr()
                && !p.partial()
                && !p.has_layout()
                && case.faults.len() == 1
                && o.faults_fired.iter().any(|(k, fired)| *fired && (*k == FaultKind::WrongKind || (*k == FaultKind::PrematureStop && !o.stop_was_expected)));
            if must_err {
                Some(("unexpected-kind-accepted".into(), format!("unexpected-kind-accepted|{}", case.parser), format!("the lexer returned only token kinds the state does not expect, but parse returned Ok [{} {}; {}]", case.parser, case.layout, case.damage)))
            } else {
                None
            }
        }
        _ => None,
    }
}

#[derive(Default)]
pub struct Stats {
    pub parses: u64,
    pub by_class: BTreeMap<String, u64>,
    pub outcomes: BTreeMap<String, u64>,
    pub lexer_faults_fired: BTreeMap<String, u64>,
    pub lexer_faults_not_fired: u64,
    pub io_faults_fired: BTreeMap<String, u64>,
    pub io_events: u64,
    pub events_total: u64,
    pub events_max: u64,
    pub empty_cell_runs: u64,
    pub user_lexer_panics: u64,
    pub must_err_checked: u64,
    pub parsers: BTreeSet<String>,
    pub distinct: BTreeSet<u64>,
    pub nontrivial: BTreeSet<u64>,
    pub samples: Vec<Value>,
    pub digests: Vec<String>,
}

impl Stats {
    pub fn to_json(&self) -> Value {
        json!({"parses": self.parses, "by_class": self.by_class, "outcomes": self.outcomes,
            "lexer_faults_fired": self.lexer_faults_fired, "lexer_faults_not_fired": self.lexer_faults_not_fired,
            "io_faults_fired": self.io_faults_fired, "io_events": self.io_events,
            "events_total": self.events_total, "events_max": [self.events_max], "empty_cell_runs": self.empty_cell_runs,
            "user_lexer_panics": self.user_lexer_panics, "must_err_checked": self.must_err_checked,
            "parsers": self.parsers.iter().collect::<Vec<_>>(),
            "distinct": self.distinct.iter().collect::<Vec<_>>(), "nontrivial": self.nontrivial.iter().collect::<Vec<_>>(),
            "samples": self.samples})
    }
}

fn bump(m: &mut BTreeMap<String, u64>, k: &str) {
    *m.entry(k.to_string()).or_insert(0) += 1;
}

/// Stack of the thread long streams are parsed on (= std's default for spawned threads).
pub const LONG_STACK: usize = 2 << 20;

const SPECIALS: &[&str] = &["é", "→", "😀", "\u{301}", "\u{1}", "\u{feff}", "\u{a0}", "\u{2003}", "\u{2028}", "\r", "\t", "\0", "\u{7f}", "\u{200b}", "ß", "§"];

/// Visits every sub-case of one (parser, sentence) work item.  Deterministic
/// in (item, tier, seed); `base_calls` = lexer calls of the fault-free run.
pub fn subcases(p: &dyn ParserCase, sentence: &[u8], base: &RunOut, thorough: bool, seed: u64, f: &mut dyn FnMut(Case)) {
    let mk = |input: Vec<u8>, damage: String, fclass: &'static str| Case {
        parser: p.id().into(),
        layout: p.layout().into(),
        input,
        faults: vec![],
        ignore_expected: false,
        via_file: false,
        io_faults: vec![],
        seq_prefix: vec![],
        damage,
        fclass,
    };
    let is_text = !p.bytes_input();
    // every byte offset for ordinary sentences; a stride for whole files
    let long_cap = if thorough { 4000 } else { 800 };
    let long_step = (sentence.len() / long_cap).max(1);
    let deliver = |mut c: Case| {
        // invalid UTF-8 can only be delivered through parse_file
        if is_text && std::str::from_utf8(&c.input).is_err() {
            c.via_file = true;
        }
        c
    };
    // 1. component faults at the Lexer seam, every call position
    let n_calls = base.lexer_calls;
    // every call position for ordinary sentences; for long ones (whole files)
    // the first calls, the last calls and a stride in between
    let cap: u64 = if thorough { 600 } else { 120 };
    let stride = if n_calls > cap { (n_calls / cap).max(1) } else { 1 };
    for n in 1..=n_calls {
        if stride > 1 && n > 12 && n + 6 < n_calls && (n + seed) % stride != 0 {
            continue;
        }
        for kind in ALL_FAULT_KINDS {
            let params: &[u32] = match kind {
                FaultKind::WrongKind => &[0, 1, 2, 5],
                FaultKind::ExtraBefore | FaultKind::ExtraAfter => &[0, 3],
                _ => &[0],
            };
            if kind == FaultKind::WithholdStop && n != n_calls && n + 1 != n_calls {
                continue;
            }
            for &param in params {
                let mut c = mk(sentence.to_vec(), format!("lexer fault {} at call {n} (param {param})", kind.name()), "lexer-fault");
                c.faults.push(LexFault { at_call: n, kind, param });
                f(c);
            }
        }
    }
    // 2. lexer that ignores the expected set, on the sentence and on every prefix
    {
        let mut c = mk(sentence.to_vec(), "lexer ignores the expected set".into(), "ignore-expected");
        c.ignore_expected = true;
        f(deliver(c));
        for k in (0..sentence.len()).step_by(long_step) {
            let mut c = mk(sentence[..k].to_vec(), format!("lexer ignores the expected set; stream torn at {k}"), "ignore-expected");
            c.ignore_expected = true;
            f(deliver(c));
        }
    }
    // 3. stream faults
    for k in (0..sentence.len()).step_by(long_step) {
        f(deliver(mk(sentence[..k].to_vec(), format!("stream torn at {k}"), "torn")));
    }
    // through parse_file as well (same bytes, other entry point)
    for k in (0..=sentence.len()).step_by(if thorough { 1 } else { 7 }) {
        let mut c = mk(sentence[..k].to_vec(), format!("stream torn at {k}, delivered through parse_file"), "torn-file");
        c.via_file = true;
        f(c);
    }
    let nbits = sentence.len() * 8;
    let flip_step = if thorough { 1 } else { (nbits / 160).max(1) };
    let mut b = (seed % flip_step as u64) as usize;
    while b < nbits {
        let mut v = sentence.to_vec();
        v[b / 8] ^= 1 << (b % 8);
        f(deliver(mk(v, format!("bit {} of byte {} flipped", b % 8, b / 8), "bit-flip")));
        b += flip_step;
    }
    for k in [1usize, 2, 3, 8] {
        if k <= sentence.len() {
            let mut v = sentence.to_vec();
            let l = v.len();
            for x in &mut v[l - k..] {
                *x = 0;
            }
            f(deliver(mk(v, format!("last {k} bytes zero-filled"), "zero-tail")));
        }
    }
    // block loss / duplication at token boundaries
    let bounds: Vec<usize> = match &base.out {
        Out::Ok { leaves, .. } => {
            let mut b: BTreeSet<usize> = BTreeSet::new();
            for l in leaves {
                b.insert(l.start as usize);
                b.insert(l.end as usize);
            }
            b.into_iter().filter(|x| *x <= sentence.len()).collect()
        }
        _ => vec![],
    };
    let bstep = (bounds.len() / if thorough { 400 } else { 40 }).max(1);
    for w in bounds.windows(2).step_by(bstep) {
        let (a, z) = (w[0], w[1]);
        if z <= a {
            continue;
        }
        let mut v = sentence[..a].to_vec();
        v.extend_from_slice(&sentence[z..]);
        f(deliver(mk(v, format!("block {a}..{z} lost"), "block-lost")));
        let mut v = sentence[..z].to_vec();
        v.extend_from_slice(&sentence[a..z]);
        v.extend_from_slice(&sentence[z..]);
        f(deliver(mk(v, format!("block {a}..{z} written twice"), "block-dup")));
    }
    // foreign characters at every token boundary
    if is_text {
        for &bpos in bounds.iter().step_by(bstep) {
            let specials: Vec<&str> = if thorough { SPECIALS.to_vec() } else { SPECIALS.iter().copied().step_by(3).collect() };
            for sp in specials {
                let mut v = sentence[..bpos].to_vec();
                v.extend_from_slice(sp.as_bytes());
                v.extend_from_slice(&sentence[bpos..]);
                f(deliver(mk(v, format!("U+{:04X} inserted at {bpos}", sp.chars().next().unwrap() as u32), "insertion")));
            }
        }
    }
    // 5. long streams ("any length"): a retried append writes a block r times.
    // Blocks are token-aligned windows (a list element, an opening bracket,
    // an operator + operand ...), so the result is a long list, a deep nest or
    // an error far into the stream; each also with garbage appended at the very
    // end (an error after a long accepted prefix), and a single byte inside a
    // token written r times (a very long token).  Sizes are bounded by the
    // predicted number of seam events (linear in the length for LR).
    if !sentence.is_empty() && sentence.len() <= 4096 && base.events > 0 {
        let per_byte = (base.events as f64 / sentence.len() as f64).max(0.05);
        let max_len_by_events = (1_500_000.0 / per_byte) as usize;
        let sel = fnv64(sentence) ^ fnv64(p.id().as_bytes()) ^ seed;
        // GLR costs far more per token (and is cubic on ambiguous grammars):
        // smaller streams, and in the quick tier only for a quarter of the items
        let mut targets: Vec<usize> = vec![];
        if p.glr() {
            if thorough || sel % 4 == 1 {
                targets.push(if thorough { 64 << 10 } else { 24 << 10 });
            }
        } else {
            targets.push(if thorough { 256 << 10 } else { 48 << 10 });
            if thorough || sel % 4 == 0 {
                targets.push(if thorough { 4 << 20 } else { 1 << 20 });
            }
        }
        let wins: Vec<(usize, usize)> = bounds.windows(2).map(|w| (w[0], w[1])).filter(|(a, z)| z > a).collect();
        let mut picked: Vec<(usize, usize)> = vec![];
        if !wins.is_empty() {
            let n = if thorough { 8 } else if p.glr() { 1 } else { 2 };
            for j in 0..n {
                let w = wins[((sel as usize).wrapping_add(j * 7919)) % wins.len()];
                if !picked.contains(&w) {
                    picked.push(w);
                }
            }
            // the block from the first token start to the last boundary but one
            // (whole sentence minus its tail), and the whole sentence
            picked.push((wins[0].0, wins[wins.len() - 1].0.max(wins[0].1)));
        }
        picked.push((0, sentence.len()));
        for &target in &targets {
            let target = target.min(max_len_by_events);
            if target <= LONG_INPUT {
                continue;
            }
            for &(a, z) in &picked {
                let r = target / (z - a);
                if r < 2 {
                    continue;
                }
                let mut v = Vec::with_capacity(sentence.len() + r * (z - a) + 8);
                v.extend_from_slice(&sentence[..a]);
                for _ in 0..r {
                    v.extend_from_slice(&sentence[a..z]);
                    // blocks that end in a token are kept apart
                    if !v.last().map(|c| c.is_ascii_whitespace()).unwrap_or(true) && is_text && z == sentence.len() {
                        v.push(b' ');
                    }
                }
                v.extend_from_slice(&sentence[z..]);
                f(deliver(mk(v.clone(), format!("block {a}..{z} written {r} times ({} bytes)", v.len()), "long-stream")));
                let mut g = v;
                g.extend_from_slice(if is_text { "\u{1}".as_bytes() } else { &[0xff] });
                f(deliver(mk(g, format!("block {a}..{z} written {r} times, then garbage at the very end"), "long-stream")));
            }
            // one byte inside a token written many times
            if let Some(&(a, z)) = wins.get((sel as usize >> 8) % wins.len().max(1)) {
                let at = a + (sel as usize >> 16) % (z - a);
                if !is_text || sentence[at].is_ascii() {
                    let mut v = sentence[..at].to_vec();
                    v.extend(std::iter::repeat(sentence[at]).take(target));
                    v.extend_from_slice(&sentence[at..]);
                    f(deliver(mk(v, format!("byte {at} written {target} times"), "long-token")));
                }
            }
        }
    }
    // 4. seeded multi-fault plans (thorough)
    if thorough && n_calls > 0 {
        let mut rng = Rng::new(sub_seed(seed, 15, fnv64(sentence) ^ fnv64(p.id().as_bytes())));
        for j in 0..200 {
            let mut c = mk(sentence.to_vec(), format!("seeded multi-fault plan {j}"), "multi-fault");
            let nf = rng.range(2, 4);
            for _ in 0..nf {
                let at = 1 + rng.below(n_calls);
                if c.faults.iter().any(|x| x.at_call == at) {
                    continue;
                }
                c.faults.push(LexFault { at_call: at, kind: *rng.pick(&ALL_FAULT_KINDS), param: rng.below(8) as u32 });
            }
            c.ignore_expected = rng.chance(1, 4);
            if rng.chance(1, 3) && !sentence.is_empty() {
                let i = rng.usize(sentence.len());
                c.input[i] ^= 1 << rng.usize(8);
                c.damage.push_str(" + a flipped bit");
                c = deliver(c);
            }
            f(c);
        }
    }
}

fn record(r: &Runner, st: &mut Stats, case: &Case, o: &RunOut, viol: &mut Vec<Value>, idx: u64) {
    st.parses += 1;
    bump(&mut st.by_class, case.fclass);
    bump(&mut st.outcomes, o.out.tag());
    st.events_total += o.events;
    st.events_max = st.events_max.max(o.events);
    if o.empty_cell {
        st.empty_cell_runs += 1;
    }
    for (k, fired) in &o.faults_fired {
        if *fired {
            bump(&mut st.lexer_faults_fired, k.name());
        } else {
            st.lexer_faults_not_fired += 1;
        }
    }
    // planned faults whose call was never reached
    st.lexer_faults_not_fired += (case.faults.len() as u64).saturating_sub(o.faults_fired.len() as u64);
    if let Out::Panic(pi) = &o.out {
        if pi.file.contains("/psim/src/lexers/") {
            st.user_lexer_panics += 1;
        }
    }
    st.parsers.insert(format!("{}/{}", case.parser, case.layout));
    let h = fnv64(&[case.parser.as_bytes(), case.layout.as_bytes(), &case.input[..], format!("{:?}{}{}{:?}", case.faults, case.ignore_expected, case.via_file, case.io_faults).as_bytes()].concat());
    st.distinct.insert(h);
    if report::digest_on() {
        let detail = match &o.out {
            Out::Ok { leaves, .. } => format!("leaves={}", leaves.len()),
            Out::ParseErr { pos, msg, .. } => format!("pos={pos}:{:016x}", fnv64(msg.as_bytes())),
            Out::IoErr(m) => format!("io:{:016x}", fnv64(m.as_bytes())),
            Out::Panic(p) => format!("panic:{}:{}", p.file.rsplit('/').next().unwrap_or(""), p.line),
            _ => String::new(),
        };
        st.digests.push(format!("{idx}|{:016x}|{}|{}|ev={}|calls={}|fired={:?}|cell={}", h, o.out.tag(), detail, o.events, o.lexer_calls, o.faults_fired, o.empty_cell));
    }
    let nontrivial = case.fclass != "baseline" && (case.faults.is_empty() || o.faults_fired.iter().any(|x| x.1));
    if nontrivial {
        st.nontrivial.insert(h);
    }
    if st.samples.len() < 4 && st.parses % 1013 == 7 {
        st.samples.push(json!({"parser": case.parser, "layout": case.layout, "damage": case.damage, "input": String::from_utf8_lossy(&case.input).chars().take(60).collect::<String>(), "outcome": o.out.tag(), "seam_events": o.events}));
    }
    if let Some((class, key, what)) = judge(r, case, o) {
        if !viol.iter().any(|v| v["key"].as_str() == Some(&key)) && viol.len() < 60 {
            viol.push(Violation { property: "C15".into(), class, key, what, case: case.to_json(), index: idx }.to_json());
        }
    }
    if !case.faults.is_empty() {
        let p = r.parser(&case.parser, &case.layout).unwrap();
        if !p.glr() && !p.partial() && !p.has_layout() && case.faults.len() == 1 && o.faults_fired.iter().any(|(k, f)| *f && *k == FaultKind::WrongKind) {
            st.must_err_checked += 1;
        }
    }
}

/// The work of one (parser, sentence) item, run inside a forked child.
fn run_item(r: &Runner, entries: &[Entry], item: &(usize, usize), thorough: bool, seed: u64, idx: u64, progress: &Path) -> Value {
    let p = &*r.registry[item.0];
    let entry = entries.iter().find(|e| e.id == p.id()).unwrap();
    let sentence = &entry.sentences[item.1];
    let mut st = Stats::default();
    let mut viol = vec![];
    let base_case = Case {
        parser: p.id().into(),
        layout: p.layout().into(),
        input: sentence.bytes.clone(),
        faults: vec![],
        ignore_expected: false,
        via_file: false,
        io_faults: vec![],
        seq_prefix: vec![],
        damage: "none (fault-free baseline)".into(),
        fclass: "baseline",
    };
    let base = match r.run(&base_case, false) {
        Some(b) => b,
        None => return json!({"stats": st.to_json(), "violations": viol}),
    };
    record(r, &mut st, &base_case, &base, &mut viol, idx);
    let mut k: u64 = 0;
    subcases(p, &sentence.bytes, &base, thorough, seed, &mut |c| {
        k += 1;
        // progress marker: lets the parent name the sub-case if this child dies
        let _ = std::fs::write(progress, c.to_json().to_string());
        if let Some(o) = r.run(&c, false) {
            record(r, &mut st, &c, &o, &mut viol, idx);
        }
    });
    // parse_file I/O faults: every I/O event of reading the input x errnos
    if r.shim.is_some() {
        let mut c0 = base_case.clone();
        c0.via_file = true;
        c0.fclass = "file-baseline";
        c0.damage = "delivered through parse_file, no fault".into();
        if let Some(o) = r.run(&c0, false) {
            record(r, &mut st, &c0, &o, &mut viol, idx);
            let events = r.io_events();
            st.io_events += events.len() as u64;
            for e in &events {
                let mut plans: Vec<(u8, i32, &str)> = vec![];
                for errno in [libc::EIO, libc::EACCES, libc::ENOENT, libc::EMFILE, libc::EISDIR, libc::ENOMEM] {
                    plans.push((F_ERRNO, errno, "io-errno"));
                }
                plans.push((F_EINTR, 0, "io-eintr"));
                plans.push((F_SHORT, 1, "io-short"));
                plans.push((F_SHORT, 3, "io-short"));
                // the file is truncated by another process after it was stat'ed
                plans.push((F_EOF, 0, "io-eof"));
                for (kind, arg, cls) in plans {
                    let mut c = c0.clone();
                    c.io_faults.push(IoFault { event: e.seq as u64, kind, arg });
                    c.damage = format!("parse_file: I/O event {} (op {}) fault kind {} arg {}", e.seq, e.op, kind, arg);
                    c.fclass = if cls == "io-errno" { "io-errno" } else if cls == "io-eintr" { "io-eintr" } else if cls == "io-eof" { "io-eof" } else { "io-short" };
                    k += 1;
                    let _ = std::fs::write(progress, c.to_json().to_string());
                    if let Some(o) = r.run(&c, false) {
                        let (_, eintr, short, errno) = r.io_stat();
                        if eintr > 0 {
                            bump(&mut st.io_faults_fired, "eintr");
                        }
                        if short > 0 {
                            bump(&mut st.io_faults_fired, "short");
                        }
                        if errno > 0 {
                            bump(&mut st.io_faults_fired, "errno");
                        }
                        if r.shim.map(|s| s.stat().eof).unwrap_or(0) > 0 {
                            bump(&mut st.io_faults_fired, "eof");
                        }
                        // a benign fault must not change the outcome
                        if kind != F_ERRNO && kind != F_EOF && o.out.tag() != base.out.tag() && !matches!(o.out, Out::Panic(_) | Out::Budget) {
                            let key = format!("benign-io-fault-changed-outcome|{}", c.parser);
                            if !viol.iter().any(|v| v["key"].as_str() == Some(&key)) {
                                viol.push(Violation { property: "C15".into(), class: "benign-io-fault-changed-outcome".into(), key, what: format!("a benign I/O fault on parse_file changed the outcome from {} to {} [{}]", base.out.tag(), o.out.tag(), c.damage), case: c.to_json(), index: idx }.to_json());
                            }
                        }
                        record(r, &mut st, &c, &o, &mut viol, idx);
                    }
                }
            }
        }
    }
    let digests = std::mem::take(&mut st.digests);
    json!({"stats": st.to_json(), "violations": viol, "digests": digests})
}

pub fn items(r: &Runner, entries: &[Entry]) -> Vec<(usize, usize)> {
    let mut v = vec![];
    for (pi, p) in r.registry.iter().enumerate() {
        if let Some(e) = entries.iter().find(|e| e.id == p.id()) {
            for si in 0..e.sentences.len() {
                v.push((pi, si));
            }
        }
    }
    v
}

fn work(args: &Args, entries: &[Entry], w: usize, nw: usize) -> Value {
    let r = Runner::new(args, w);
    let thorough = args.tier == "thorough";
    let all = items(&r, entries);
    let mut merged = Value::Null;
    // Wall-clock backstop per forked item (the deterministic hang detector is
    // the seam-event budget; this only catches loops that touch no seam).
    // Items take seconds; after the first item that had to be killed, the
    // backstop drops so that a change that makes many parses hang is still
    // reported within minutes.
    let backstop = std::cell::Cell::new(if thorough { 1_800_000 } else { 900_000 });
    let after_first_kill = if thorough { 300_000 } else { 90_000 };
    let progress = r.scratch.join("progress");
    for (idx, item) in all.iter().enumerate() {
        if idx % nw != w {
            continue;
        }
        let _ = std::fs::remove_file(&progress);
        let res = fork_collect(backstop.get(), |wfd| {
            let v = run_item(&r, entries, item, thorough, args.seed, idx as u64, &progress);
            let s = v.to_string();
            let b = s.as_bytes();
            let mut off = 0usize;
            unsafe {
                while off < b.len() {
                    let n = libc::write(wfd, b[off..].as_ptr() as *const libc::c_void, b.len() - off);
                    if n <= 0 {
                        break;
                    }
                    off += n as usize;
                }
                libc::_exit(0);
            }
        });
        match res {
            Ok(text) => match serde_json::from_str::<Value>(&text) {
                Ok(v) => report::merge(&mut merged, &v),
                Err(_) => report::merge(&mut merged, &json!({"harness_errors": [format!("item {idx}: unparsable child result")]})),
            },
            Err(end) => {
                if matches!(end, ChildEnd::Timeout) {
                    backstop.set(after_first_kill);
                }
                // the child died or hung: name the sub-case it was running
                let marked: Option<Case> = std::fs::read_to_string(&progress).ok().and_then(|s| serde_json::from_str::<Value>(&s).ok()).and_then(|v| Case::from_json(&v));
                let k: u64 = 0;
                let p = &*r.registry[item.0];
                let entry = entries.iter().find(|e| e.id == p.id()).unwrap();
                let sentence = &entry.sentences[item.1];
                let base_case = Case { parser: p.id().into(), layout: p.layout().into(), input: sentence.bytes.clone(), faults: vec![], ignore_expected: false, via_file: false, io_faults: vec![],
        seq_prefix: vec![], damage: "none".into(), fclass: "baseline" };
                let mut culprit = marked.unwrap_or_else(|| base_case.clone());
                if k > 0 {
                    // re-enumerate up to k in a child that only counts (it never parses)
                    if let Some(base) = isolated(&r, &base_case) {
                        let mut n = 0u64;
                        subcases(p, &sentence.bytes, &base, thorough, args.seed, &mut |c| {
                            n += 1;
                            if n == k {
                                culprit = c;
                            }
                        });
                    }
                }
                let (class, what) = match end {
                    ChildEnd::Timeout => ("hang", "the parse did not return (wall-clock backstop)".to_string()),
                    ChildEnd::Abort(m) => ("abort", format!("the process died during the parse: {m}")),
                };
                let v = Violation { property: "C15".into(), class: class.into(), key: format!("{class}|{}", culprit.parser), what: format!("{what} [{} {}; {}]", culprit.parser, culprit.layout, culprit.damage), case: culprit.to_json(), index: idx as u64 };
                report::merge(&mut merged, &json!({"violations": [v.to_json()]}));
            }
        }
    }
    // parser reuse: one parser value, a seeded sequence of inputs
    let n_items = all.len();
    for pi in 0..r.registry.len() {
        let idx = n_items + pi;
        if idx % nw != w {
            continue;
        }
        let res = fork_collect(backstop.get().min(900_000), |wfd| {
            let v = run_seq_item(&r, entries, pi, thorough, args.seed, idx as u64);
            let s = v.to_string();
            let b = s.as_bytes();
            let mut off = 0usize;
            unsafe {
                while off < b.len() {
                    let n = libc::write(wfd, b[off..].as_ptr() as *const libc::c_void, b.len() - off);
                    if n <= 0 {
                        break;
                    }
                    off += n as usize;
                }
                libc::_exit(0);
            }
        });
        match res {
            Ok(text) => {
                if let Ok(v) = serde_json::from_str::<Value>(&text) {
                    report::merge(&mut merged, &v);
                }
            }
            Err(end) => {
                if matches!(end, ChildEnd::Timeout) {
                    backstop.set(after_first_kill);
                }
                let p = &*r.registry[pi];
                let (class, what) = match end {
                    ChildEnd::Timeout => ("hang", "a parse in a reuse sequence did not return".to_string()),
                    ChildEnd::Abort(m) => ("abort", format!("the process died during a reuse sequence: {m}")),
                };
                let case = Case { parser: p.id().into(), layout: p.layout().into(), input: vec![], faults: vec![], ignore_expected: false, via_file: false, io_faults: vec![], seq_prefix: vec![], damage: "parser reuse sequence (not isolated)".into(), fclass: "reuse" };
                let v = Violation { property: "C15".into(), class: class.into(), key: format!("{class}|{}", p.id()), what: format!("{what} [{} {}]", p.id(), p.layout()), case: case.to_json(), index: idx as u64 };
                report::merge(&mut merged, &json!({"violations": [v.to_json()]}));
            }
        }
    }
    r.cleanup();
    merged
}

/// Inputs a reuse sequence is drawn from: the entry's sentences (valid and
/// invalid) and simple damaged variants.
pub fn reuse_pool(entry: &Entry) -> Vec<(Vec<u8>, String)> {
    let mut pool: Vec<(Vec<u8>, String)> = vec![(vec![], "empty input".into()), (b"  \n ".to_vec(), "whitespace only".into())];
    for (i, s) in entry.sentences.iter().enumerate() {
        pool.push((s.bytes.clone(), format!("sentence {i}")));
        let mid = s.bytes.len() / 2;
        let mut cut = mid;
        while cut > 0 && std::str::from_utf8(&s.bytes[..cut]).is_err() {
            cut -= 1;
        }
        pool.push((s.bytes[..cut].to_vec(), format!("sentence {i} torn at {cut}")));
        let mut g = s.bytes[..cut].to_vec();
        g.extend_from_slice("\u{1}§".as_bytes());
        g.extend_from_slice(&s.bytes[cut..]);
        pool.push((g, format!("sentence {i} with garbage at {cut}")));
        let mut d = s.bytes.clone();
        d.extend_from_slice(b" ");
        d.extend_from_slice(&s.bytes);
        pool.push((d, format!("sentence {i} twice")));
        let mut sp = b"\n\t ".to_vec();
        sp.extend_from_slice(&s.bytes);
        sp.extend_from_slice("\u{a0}\n".as_bytes());
        pool.push((sp, format!("sentence {i} padded")));
    }
    pool
}

fn run_seq_item(r: &Runner, entries: &[Entry], pi: usize, thorough: bool, seed: u64, idx: u64) -> Value {
    let p = &*r.registry[pi];
    let mut st = Stats::default();
    let mut viol = vec![];
    let entry = match entries.iter().find(|e| e.id == p.id()) {
        Some(e) if !e.sentences.is_empty() && !p.bytes_input() => e,
        _ => return json!({"stats": st.to_json(), "violations": viol}),
    };
    let pool = reuse_pool(entry);
    let mut rng = Rng::new(sub_seed(seed, 1515, fnv64(p.id().as_bytes()) ^ fnv64(p.layout().as_bytes())));
    for _ in 0..if thorough { 150 } else { 12 } {
        let len = rng.range(2, 5);
        let seq: Vec<&(Vec<u8>, String)> = (0..len).map(|_| rng.pick(&pool)).collect();
        // every prefix of the sequence is a case: (inputs before, input)
        let inputs: Vec<Vec<u8>> = seq.iter().map(|x| x.0.clone()).collect();
        let outs = p.run_seq(&inputs, &RunCfg::default());
        for (k, o) in outs.iter().enumerate() {
            let case = Case {
                parser: p.id().into(),
                layout: p.layout().into(),
                input: inputs[k].clone(),
                faults: vec![],
                ignore_expected: false,
                via_file: false,
                io_faults: vec![],
                seq_prefix: inputs[..k].to_vec(),
                damage: format!("parser value reused: {} after [{}]", seq[k].1, seq[..k].iter().map(|x| x.1.clone()).collect::<Vec<_>>().join(", ")),
                fclass: "reuse",
            };
            record(r, &mut st, &case, o, &mut viol, idx);
            if matches!(o.out, Out::Panic(_) | Out::Budget) {
                break;
            }
        }
    }
    let digests = std::mem::take(&mut st.digests);
    json!({"stats": st.to_json(), "violations": viol, "digests": digests})
}

/// Runs one case in its own forked child (used to survive aborts).
fn isolated(r: &Runner, case: &Case) -> Option<RunOut> {
    // only the lexer-call count and leaves of the fault-free run are needed
    let res = fork_collect(120_000, |wfd| {
        let out = r.run(case, false);
        let v = match out {
            Some(o) => json!({"calls": o.lexer_calls, "leaves": match &o.out { Out::Ok { leaves, .. } => leaves.iter().map(|l| json!([l.kind, l.start, l.end])).collect::<Vec<_>>(), _ => vec![] }, "ok": matches!(o.out, Out::Ok { .. })}),
            None => json!({}),
        };
        let s = v.to_string();
        unsafe {
            libc::write(wfd, s.as_ptr() as *const libc::c_void, s.len());
            libc::_exit(0);
        }
    })
    .ok()?;
    let v: Value = serde_json::from_str(&res).ok()?;
    let leaves: Vec<TokRec> = v["leaves"].as_array()?.iter().filter_map(|l| Some(TokRec { kind: l[0].as_u64()? as u32, start: l[1].as_u64()? as u32, end: l[2].as_u64()? as u32 })).collect();
    Some(RunOut {
        out: if v["ok"].as_bool()? { Out::Ok { leaves, solutions: 1 } } else { Out::NotApplicable },
        events: 0,
        lexer_calls: v["calls"].as_u64()?,
        faults_fired: vec![],
        empty_cell: false,
        calls: vec![],
        stop_was_expected: false,
    })
}

pub fn still_fails(r: &Runner, case: &Case, key: &str) -> bool {
    // in a forked child: the case may abort the process
    let res = fork_collect(120_000, |wfd| {
        let verdict = match r.run(case, false) {
            Some(o) => judge(r, case, &o).map(|x| x.1).unwrap_or_default(),
            None => String::new(),
        };
        unsafe {
            libc::write(wfd, verdict.as_ptr() as *const libc::c_void, verdict.len());
            libc::_exit(0);
        }
    });
    match res {
        Ok(k) => k == key,
        Err(ChildEnd::Timeout) => key.starts_with("hang|"),
        Err(ChildEnd::Abort(_)) => key.starts_with("abort|"),
    }
}

pub fn minimise(r: &Runner, case: &Case, key: &str) -> Case {
    let mut cur = case.clone();
    // drop faults
    let mut i = 0;
    while i < cur.faults.len() {
        let mut c = cur.clone();
        c.faults.remove(i);
        if still_fails(r, &c, key) {
            cur = c;
        } else {
            i += 1;
        }
    }
    // drop inputs parsed before with the same parser value
    let mut i = 0;
    while i < cur.seq_prefix.len() {
        let mut c = cur.clone();
        c.seq_prefix.remove(i);
        if still_fails(r, &c, key) {
            cur = c;
        } else {
            i += 1;
        }
    }
    if cur.ignore_expected {
        let mut c = cur.clone();
        c.ignore_expected = false;
        if still_fails(r, &c, key) {
            cur = c;
        }
    }
    if !cur.io_faults.is_empty() {
        let mut c = cur.clone();
        c.io_faults.clear();
        if still_fails(r, &c, key) {
            cur = c;
        }
    }
    // shorten the input from the end and from the start (lexer-fault call
    // numbers refer to the prefix, so cutting the tail keeps them meaningful)
    let mut budget = 300;
    let mut chunk = (cur.input.len() / 2).max(1);
    while chunk >= 1 && budget > 0 {
        let mut changed = false;
        if cur.input.len() >= chunk {
            budget -= 1;
            let mut c = cur.clone();
            let l = c.input.len();
            c.input.truncate(l - chunk);
            if std::str::from_utf8(&c.input).is_err() && !c.via_file && !r.parser(&c.parser, &c.layout).map(|p| p.bytes_input()).unwrap_or(false) {
                c.via_file = true;
            }
            if still_fails(r, &c, key) {
                cur = c;
                changed = true;
            }
        }
        if !changed {
            if chunk == 1 {
                break;
            }
            chunk /= 2;
        }
    }
    if cur.faults.is_empty() {
        let mut chunk = (cur.input.len() / 2).max(1);
        while chunk >= 1 && budget > 0 {
            let mut changed = false;
            if cur.input.len() >= chunk {
                budget -= 1;
                let mut c = cur.clone();
                c.input.drain(..chunk);
                if std::str::from_utf8(&c.input).is_err() && !c.via_file && !r.parser(&c.parser, &c.layout).map(|p| p.bytes_input()).unwrap_or(false) {
                    c.via_file = true;
                }
                if still_fails(r, &c, key) {
                    cur = c;
                    changed = true;
                }
            }
            if !changed {
                if chunk == 1 {
                    break;
                }
                chunk /= 2;
            }
        }
    }
    cur.damage = format!("minimised from: {}", case.damage);
    cur
}

pub fn run(args: &Args) -> i32 {
    let paths = Paths { verif: args.verif.clone(), repo: args.repo.clone() };
    let t0 = crate::now_s();
    let mut entries = match corpus::load(&args.verif) {
        Ok(e) => e,
        Err(e) => {
            eprintln!("harness error: {e}");
            return 2;
        }
    };
    if let Some(only) = &args.only {
        // determinism self-test: a slice of the corpus
        for e in entries.iter_mut() {
            if !only.split(',').any(|o| e.id.contains(o)) {
                e.sentences.clear();
            }
        }
    }
    let summaries = match crate::pool::fan_out(args.workers, &|w, nw| work(args, &entries, w, nw)) {
        Ok(s) => s,
        Err(e) => {
            eprintln!("harness error: {e}");
            return 2;
        }
    };
    let mut merged = Value::Null;
    for s in &summaries {
        report::merge(&mut merged, s);
    }
    if let Some(errs) = merged.get("harness_errors").and_then(|e| e.as_array()) {
        if !errs.is_empty() {
            eprintln!("harness error: {:?}", errs);
            return 2;
        }
    }
    if let Some(out) = &args.digest_out {
        let (n, h) = report::write_digests(&merged, Some(out));
        println!("digest: {n} runs, hash {h:016x}");
    }
    let st = merged["stats"].clone();
    let mut violations: Vec<Violation> = merged["violations"].as_array().cloned().unwrap_or_default().iter().filter_map(Violation::from_json).collect();
    violations.sort_by(|a, b| (a.index, &a.key).cmp(&(b.index, &b.key)));
    let r = Runner::new(args, 999);
    let findings = report::load_findings(&paths).unwrap_or_default();
    let mut seen: BTreeSet<String> = BTreeSet::new();
    let mut minimised = vec![];
    for mut v in violations {
        if !seen.insert(v.key.clone()) {
            continue;
        }
        let known = findings.iter().any(|f| f.property == "C15" && f.status == "known" && f.key == v.key);
        if !known && minimised.len() < 12 {
            if let Some(case) = Case::from_json(&v.case) {
                if still_fails(&r, &case, &v.key) {
                    let m = minimise(&r, &case, &v.key);
                    v.case = m.to_json();
                } else {
                    v.what.push_str(" [WARNING: did not reproduce on re-run]");
                }
            }
        }
        minimised.push(v);
    }
    r.cleanup();
    let wall = crate::now_s() - t0;
    let parses = st["parses"].as_u64().unwrap_or(0);
    let mut samples = st["samples"].as_array().cloned().unwrap_or_default();
    samples.sort_by_key(|s| s.to_string());
    samples.truncate(5);
    let events_max = st["events_max"].as_array().map(|a| a.iter().filter_map(|x| x.as_u64()).max().unwrap_or(0)).unwrap_or(0);
    let coverage = json!({
        "evaluations": parses,
        "distinct_nontrivial": report::distinct(&st["nontrivial"]),
        "rule": "one evaluation = one call of parse/parse_file of a real generated parser (both table layouts) behind the simulator's seams. Distinct by hash of (parser, layout, input bytes, lexer fault plan, entry point, I/O fault plan); non-trivial = not the fault-free baseline and, for lexer-fault cases, the planned fault actually fired.",
        "samples": samples,
        "cases_by_fault_class": st["by_class"], "outcomes": st["outcomes"],
        "lexer_faults_fired": st["lexer_faults_fired"], "lexer_faults_not_fired": st["lexer_faults_not_fired"],
        "parse_file_io_faults_fired": st["io_faults_fired"], "parse_file_io_events_enumerated": st["io_events"],
        "runs_driven_into_an_empty_action_cell": st["empty_cell_runs"],
        "must_err_rule_checked": st["must_err_checked"],
        "panics_inside_the_users_own_lexer_excluded": st["user_lexer_panics"],
        "simulated_time_seam_events_total": st["events_total"], "simulated_time_seam_events_max_per_parse": events_max,
        "step_budget": 5_000_000u64,
        "parsers_x_layouts_covered": report::distinct(&st["parsers"]),
        "distinct_cases": report::distinct(&st["distinct"]),
        "runs_per_hour": if wall > 0.0 { (parses as f64 / wall * 3600.0) as u64 } else { 0 },
        "components": {
            "real": ["LRParser, GlrParser, GSS/forest, StringLexer, TreeBuilder, Input for str/[u8], parse_file (rustemo runtime from /repo's working tree, debug assertions + overflow checks on)", "generated tables in both layouts and generated regex recognizers (generated at build time by /repo's compiler)", "the repository's documented custom lexers (copied verbatim)"],
            "simulated": ["the lexer's misbehaviour (fault proxy around the real lexer)", "stream damage", "I/O faults on parse_file (shim)"],
        },
        "exhaustive": false,
    });
    let rep = Report {
        property: "C15".into(),
        tier: args.tier.clone(),
        seed: args.seed,
        level: "exploration".into(),
        coverage,
        assumptions: vec![
            "trusted item names of generated modules (PARSER_DEFINITION, RECOGNIZERS, TokenKind, State, ...): a rename stops psim from building (exit 2), it cannot produce a wrong verdict".into(),
            "out-of-contract lexer behaviour (zero-width non-STOP tokens, spans outside the input) is not injected".into(),
            "a panic raised inside the user's own lexer code is not attributed to rustemo".into(),
            "walking a cyclic forest is outside 'calling parse'".into(),
        ],
        wall_s: wall,
        violations: minimised,
    };
    let ev = args.evidence.clone().unwrap_or_else(|| args.verif.join("evidence/C15.json"));
    report::finish(&paths, rep, &ev)
}

pub fn replay_cmd(args: &Args) -> i32 {
    let file = match &args.file {
        Some(f) => f.clone(),
        None => return 2,
    };
    let v: Value = match std::fs::read_to_string(&file).ok().and_then(|t| serde_json::from_str(&t).ok()) {
        Some(v) => v,
        None => {
            eprintln!("harness error: cannot read replay file {file:?}");
            return 2;
        }
    };
    let prop = v["property"].as_str().unwrap_or("").to_string();
    if prop == "C12" {
        return crate::c12::replay(args, &v, &file);
    }
    let r = Runner::new(args, 998);
    let code = match Case::from_json(&v["case"]) {
        Some(case) => {
            let key = v["key"].as_str().unwrap_or("");
            if still_fails(&r, &case, key) {
                println!("VIOLATION property=C15 replay={}", file.display());
                println!("  class={} key={}", v["class"].as_str().unwrap_or(""), key);
                1
            } else {
                println!("replay: property C15 holds on this case now");
                0
            }
        }
        None => 2,
    };
    r.cleanup();
    code
}
