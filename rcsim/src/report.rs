//! Violations, known findings, replay files, evidence (DESIGN.md 3.4-3.5, 6).

use crate::sim::PanicInfo;
use serde_json::{json, Value};
use std::collections::BTreeMap;
use std::path::{Path, PathBuf};

#[derive(Clone, Debug)]
pub struct Violation {
    pub property: String,
    /// violation class, stable under minimisation (e.g. "bytes-differ:actions")
    pub class: String,
    /// identity for the known-findings file
    pub key: String,
    pub what: String,
    /// explicit, self-contained replay case
    pub case: Value,
    /// index of the run that found it (for deterministic ordering)
    pub index: u64,
}

impl Violation {
    pub fn to_json(&self) -> Value {
        json!({"property": self.property, "class": self.class, "key": self.key, "what": self.what, "case": self.case, "index": self.index})
    }
    pub fn from_json(v: &Value) -> Option<Violation> {
        Some(Violation {
            property: v.get("property")?.as_str()?.into(),
            class: v.get("class")?.as_str()?.into(),
            key: v.get("key")?.as_str()?.into(),
            what: v.get("what")?.as_str()?.into(),
            case: v.get("case")?.clone(),
            index: v.get("index")?.as_u64()?,
        })
    }
}

/// Determinism self-test (DESIGN.md 5): when on, every run contributes one
/// digest line (outcome, output hashes, event trace hash) to its summary.
pub static DIGEST: std::sync::atomic::AtomicBool = std::sync::atomic::AtomicBool::new(false);

pub fn digest_on() -> bool {
    DIGEST.load(std::sync::atomic::Ordering::Relaxed)
}

/// Sorts the digest lines of a merged summary, writes them to `out` and
/// returns (count, hash).
pub fn write_digests(merged: &Value, out: Option<&Path>) -> (usize, u64) {
    let mut lines: Vec<String> = merged.get("digests").and_then(|d| d.as_array()).map(|a| a.iter().filter_map(|x| x.as_str().map(|s| s.to_string())).collect()).unwrap_or_default();
    lines.sort();
    let text = lines.join("\n");
    if let Some(o) = out {
        let _ = std::fs::write(o, &text);
    }
    (lines.len(), crate::prng::fnv64(text.as_bytes()))
}

pub struct Paths {
    pub verif: PathBuf,
    pub repo: PathBuf,
}

/// Normalises a panic message: quoted strings, numbers and paths vary with
/// the input, the call site does not.
pub fn normalise_msg(m: &str) -> String {
    let mut out = String::new();
    let mut chars = m.chars().peekable();
    let mut in_quote: Option<char> = None;
    while let Some(c) = chars.next() {
        if let Some(q) = in_quote {
            if c == q {
                in_quote = None;
                out.push(q);
            }
            continue;
        }
        if c == '"' || c == '\'' || c == '`' {
            in_quote = Some(c);
            out.push(c);
            out.push('_');
            continue;
        }
        if c.is_ascii_digit() {
            while chars.peek().map(|d| d.is_ascii_digit()).unwrap_or(false) {
                chars.next();
            }
            out.push('N');
            continue;
        }
        out.push(c);
    }
    out.chars().take(40).collect()
}

fn crate_relative(file: &str) -> String {
    if file.starts_with("rustemo-compiler/src/") || file.starts_with("rustemo/src/") {
        return file.to_string();
    }
    for marker in ["/rustemo-compiler/src/", "/rustemo/src/"] {
        if let Some(p) = file.find(marker) {
            return file[p + 1..].to_string();
        }
    }
    // rcomp reports paths relative to the crate dir ("src/table/mod.rs")
    file.to_string()
}

/// Identity of a panic: (file relative to its crate, trimmed source text of
/// the panicking line, normalised message).  Stable under unrelated line
/// shifts, distinct per call site.
pub fn panic_key(paths: &Paths, p: &PanicInfo) -> String {
    // prefer the first rustemo frame when the panic was raised inside a dependency
    let (file, line) = if (p.file.contains("/rustemo-compiler/src/") || p.file.contains("/rustemo/src/") || p.file.starts_with("src/") || p.file.starts_with("rustemo")) && !p.file.contains("/.cargo/") {
        (p.file.clone(), p.line)
    } else if !p.frame.is_empty() {
        let mut it = p.frame.rsplitn(2, ':');
        let line = it.next().and_then(|l| l.parse().ok()).unwrap_or(0);
        (it.next().unwrap_or("").to_string(), line)
    } else {
        (p.file.clone(), p.line)
    };
    let rel = crate_relative(&file);
    let mut src = String::new();
    let candidates = [PathBuf::from(&file), paths.repo.join(&rel), paths.repo.join("rustemo-compiler").join(&rel), paths.repo.join("rustemo").join(&rel)];
    for c in candidates {
        if let Ok(text) = std::fs::read_to_string(&c) {
            if let Some(l) = text.lines().nth(line.saturating_sub(1) as usize) {
                src = l.trim().to_string();
                break;
            }
        }
    }
    format!("{}|{}|{}", rel, src, normalise_msg(&p.msg))
}

#[derive(Clone, Debug)]
pub struct Finding {
    pub property: String,
    pub status: String,
    pub key: String,
    pub what: String,
}

pub fn load_findings(paths: &Paths) -> Result<Vec<Finding>, String> {
    let p = paths.verif.join("known_findings.json");
    let text = match std::fs::read_to_string(&p) {
        Ok(t) => t,
        Err(_) => return Ok(vec![]),
    };
    let v: Value = serde_json::from_str(&text).map_err(|e| format!("known_findings.json: {e}"))?;
    let mut out = vec![];
    for f in v.get("findings").and_then(|f| f.as_array()).cloned().unwrap_or_default() {
        out.push(Finding {
            property: f.get("property").and_then(|x| x.as_str()).unwrap_or("").into(),
            status: f.get("status").and_then(|x| x.as_str()).unwrap_or("").into(),
            key: f.get("key").and_then(|x| x.as_str()).unwrap_or("").into(),
            what: f.get("what").and_then(|x| x.as_str()).unwrap_or("").into(),
        });
    }
    Ok(out)
}

pub struct Report {
    pub property: String,
    pub tier: String,
    pub seed: u64,
    pub level: String,
    pub coverage: Value,
    pub assumptions: Vec<String>,
    pub wall_s: f64,
    pub violations: Vec<Violation>,
}

/// Writes replay files and the evidence file, prints KNOWN-FINDING /
/// VIOLATION lines, returns the exit code (0 or 1).
pub fn finish(paths: &Paths, mut rep: Report, evidence_path: &Path) -> i32 {
    let findings = match load_findings(paths) {
        Ok(f) => f,
        Err(e) => {
            eprintln!("harness error: {e}");
            return 2;
        }
    };
    rep.violations.sort_by(|a, b| (a.index, &a.key).cmp(&(b.index, &b.key)));
    // one report per key
    let mut by_key: BTreeMap<String, Violation> = BTreeMap::new();
    let mut order: Vec<String> = vec![];
    for v in rep.violations.drain(..) {
        if !by_key.contains_key(&v.key) {
            order.push(v.key.clone());
            by_key.insert(v.key.clone(), v);
        }
    }
    let mut new_violations = 0;
    let mut known_hit: Vec<Value> = vec![];
    let replay_dir = paths.verif.join("replays");
    let _ = std::fs::create_dir_all(&replay_dir);
    for key in order {
        let v = &by_key[&key];
        let known = findings.iter().find(|f| f.property == v.property && f.status == "known" && f.key == v.key);
        if let Some(k) = known {
            println!("KNOWN-FINDING: property={} {}", v.property, k.what);
            known_hit.push(json!({"key": v.key, "what": k.what}));
            continue;
        }
        new_violations += 1;
        let name = format!("{}-{:016x}.json", v.property, crate::prng::fnv64(v.key.as_bytes()));
        let path = replay_dir.join(name);
        let body = json!({"property": v.property, "class": v.class, "key": v.key, "what": v.what, "found_at_index": v.index, "seed": rep.seed, "tier": rep.tier, "case": v.case});
        let _ = std::fs::write(&path, serde_json::to_string_pretty(&body).unwrap());
        println!("VIOLATION property={} replay={}", v.property, path.display());
        println!("  class={} key={}", v.class, v.key);
        println!("  {}", v.what);
    }
    let mut ev = json!({
        "property_id": rep.property,
        "tier": rep.tier,
        "seed": rep.seed,
        "level": rep.level,
        "coverage": rep.coverage,
        "assumptions": rep.assumptions,
        "wall_s": rep.wall_s,
        "violations": new_violations,
    });
    ev["coverage"]["known_findings_hit"] = Value::Array(known_hit);
    if let Some(dir) = evidence_path.parent() {
        let _ = std::fs::create_dir_all(dir);
    }
    if let Err(e) = std::fs::write(evidence_path, serde_json::to_string_pretty(&ev).unwrap()) {
        eprintln!("harness error: cannot write evidence: {e}");
        return 2;
    }
    if new_violations > 0 {
        1
    } else {
        0
    }
}

// ---- commutative summary merge -----------------------------------------

/// Merge of worker summaries: numbers add, arrays concatenate (callers sort
/// and truncate), objects merge recursively, strings keep the smaller.
pub fn merge(a: &mut Value, b: &Value) {
    match (a, b) {
        (Value::Number(x), Value::Number(y)) => {
            if let (Some(i), Some(j)) = (x.as_u64(), y.as_u64()) {
                *x = serde_json::Number::from(i + j);
            } else if let (Some(i), Some(j)) = (x.as_f64(), y.as_f64()) {
                *x = serde_json::Number::from_f64(i + j).unwrap_or(serde_json::Number::from(0));
            }
        }
        (Value::Array(x), Value::Array(y)) => x.extend(y.iter().cloned()),
        (Value::Object(x), Value::Object(y)) => {
            for (k, v) in y {
                match x.get_mut(k) {
                    Some(xv) => merge(xv, v),
                    None => {
                        x.insert(k.clone(), v.clone());
                    }
                }
            }
        }
        (a @ Value::Null, b) => *a = b.clone(),
        (Value::String(x), Value::String(y)) => {
            if y < x {
                *x = y.clone();
            }
        }
        _ => {}
    }
}

/// Arrays of u64-as-string hashes -> number of distinct values.
pub fn distinct(v: &Value) -> u64 {
    let mut s: std::collections::BTreeSet<String> = Default::default();
    if let Some(a) = v.as_array() {
        for x in a {
            if let Some(t) = x.as_str() {
                s.insert(t.to_string());
            } else if let Some(n) = x.as_u64() {
                s.insert(n.to_string());
            }
        }
    }
    s.len() as u64
}
