//! The seams psim owns (DESIGN.md 4/C15): `CountingDef` in front of the
//! generated `ParserDefinition`, `FaultLexer` in front of the real lexer, a
//! step budget on seam events, and the per-grammar driver macros.

use rustemo::{Action, Context, Input, Lexer, ParserDefinition, State, Token};
use std::cell::RefCell;

#[derive(Clone, Copy, Debug, PartialEq, Eq, PartialOrd, Ord)]
pub enum FaultKind {
    /// every returned token gets a kind outside the expected set
    WrongKind,
    /// STOP is returned although input remains
    PrematureStop,
    /// STOP at the end of input is withheld
    WithholdStop,
    /// an extra token of an unexpected kind before the real ones
    ExtraBefore,
    /// ... after the real ones
    ExtraAfter,
    /// the lexer returns nothing
    Nothing,
}

pub const ALL_FAULT_KINDS: [FaultKind; 6] = [FaultKind::WrongKind, FaultKind::PrematureStop, FaultKind::WithholdStop, FaultKind::ExtraBefore, FaultKind::ExtraAfter, FaultKind::Nothing];

impl FaultKind {
    pub fn name(&self) -> &'static str {
        match self {
            FaultKind::WrongKind => "wrong-kind",
            FaultKind::PrematureStop => "premature-stop",
            FaultKind::WithholdStop => "withhold-stop",
            FaultKind::ExtraBefore => "extra-before",
            FaultKind::ExtraAfter => "extra-after",
            FaultKind::Nothing => "nothing",
        }
    }
    pub fn from_name(s: &str) -> Option<FaultKind> {
        ALL_FAULT_KINDS.iter().copied().find(|k| k.name() == s)
    }
}

#[derive(Clone, Debug, PartialEq, Eq)]
pub struct LexFault {
    /// 1-based index of the lexer call the fault applies to
    pub at_call: u64,
    pub kind: FaultKind,
    /// selects which unexpected kind is used
    pub param: u32,
}

#[derive(Clone, Debug, Default)]
pub struct RunCfg {
    pub faults: Vec<LexFault>,
    /// the lexer ignores the expected-token list (tries every terminal)
    pub ignore_expected: bool,
    pub budget: u64,
    pub record_calls: bool,
    /// deliver the input through `parse_file` from this path instead of `parse(&str)`
    pub via_file: Option<std::path::PathBuf>,
}

#[derive(Clone, Copy, Debug, PartialEq, Eq)]
pub struct TokRec {
    pub kind: u32,
    pub start: u32,
    pub end: u32,
}

#[derive(Clone, Debug, PartialEq, Eq)]
pub struct CallRec {
    pub state: u32,
    /// position before the call (the parser's position)
    pub pos: u32,
    /// position after the lexer skipped whitespace
    pub pos_after: u32,
    pub toks: Vec<TokRec>,
}

#[derive(Clone, Debug, PartialEq, Eq)]
pub struct PanicInfo {
    pub file: String,
    pub line: u32,
    pub msg: String,
    pub frame: String,
}

#[derive(Clone, Debug, PartialEq, Eq)]
pub enum Out {
    Ok { leaves: Vec<TokRec>, solutions: u64 },
    ParseErr { pos: usize, line: Option<usize>, column: Option<usize>, end_pos: usize, has_span: bool, msg: String },
    IoErr(String),
    Panic(PanicInfo),
    Budget,
    /// the input cannot be delivered through this entry point (e.g. invalid
    /// UTF-8 through `parse(&str)`)
    NotApplicable,
}

impl Out {
    pub fn tag(&self) -> &'static str {
        match self {
            Out::Ok { .. } => "ok",
            Out::ParseErr { .. } => "parse-err",
            Out::IoErr(_) => "io-err",
            Out::Panic(_) => "panic",
            Out::Budget => "budget-exceeded",
            Out::NotApplicable => "n/a",
        }
    }
}

#[derive(Clone, Debug)]
pub struct RunOut {
    pub out: Out,
    /// seam events = simulated time
    pub events: u64,
    pub lexer_calls: u64,
    pub faults_fired: Vec<(FaultKind, bool)>,
    /// the parser was driven into an empty action cell
    pub empty_cell: bool,
    pub calls: Vec<CallRec>,
    /// STOP was in the expected set at the call where PrematureStop fired
    pub stop_was_expected: bool,
}

pub trait ParserCase: Sync {
    fn id(&self) -> &'static str;
    fn layout(&self) -> &'static str;
    fn glr(&self) -> bool;
    fn partial(&self) -> bool;
    fn has_layout(&self) -> bool;
    fn bytes_input(&self) -> bool;
    fn cyclic(&self) -> bool {
        false
    }
    fn token_kind_names(&self) -> &'static [&'static str];
    fn run(&self, input: &[u8], cfg: &RunCfg) -> RunOut;
    /// One parser value reused for a sequence of `parse` calls (state that
    /// survives a call: builder stack, layout parser, file name ...).
    fn run_seq(&self, _inputs: &[Vec<u8>], _cfg: &RunCfg) -> Vec<RunOut> {
        vec![]
    }
    /// Does any recognizer of the grammar match a string that begins with
    /// this text?  (start-up guard of C12's W variant)  None for byte parsers.
    fn any_recognizer_matches(&self, _text: &str) -> Option<bool> {
        None
    }
}

// ---- simulation state (one parse at a time per process) -----------------

#[derive(Default)]
pub struct SimState {
    pub events: u64,
    pub budget: u64,
    pub lexer_calls: u64,
    pub faults: Vec<LexFault>,
    pub fired: Vec<(FaultKind, bool)>,
    pub ignore_expected: bool,
    pub record: bool,
    pub calls: Vec<CallRec>,
    pub empty_cell: bool,
    pub stop_was_expected: bool,
}

thread_local! {
    pub static SIM: RefCell<SimState> = RefCell::new(SimState::default());
    pub static LAST_PANIC: RefCell<Option<PanicInfo>> = const { RefCell::new(None) };
}

/// Private unwinding payload of the deterministic hang detector.
pub struct BudgetExceeded;

#[inline]
fn tick() {
    let over = SIM.with(|s| {
        let mut s = s.borrow_mut();
        s.events += 1;
        s.events > s.budget
    });
    if over {
        std::panic::resume_unwind(Box::new(BudgetExceeded));
    }
}

pub fn sim_reset(cfg: &RunCfg) {
    SIM.with(|s| {
        *s.borrow_mut() = SimState {
            budget: if cfg.budget == 0 { 5_000_000 } else { cfg.budget },
            faults: cfg.faults.clone(),
            ignore_expected: cfg.ignore_expected,
            record: cfg.record_calls,
            ..Default::default()
        }
    });
    LAST_PANIC.with(|p| *p.borrow_mut() = None);
}

pub fn install_panic_hook() {
    std::panic::set_hook(Box::new(|info| {
        let (file, line) = info.location().map(|l| (l.file().to_string(), l.line())).unwrap_or(("?".into(), 0));
        let msg = if let Some(s) = info.payload().downcast_ref::<&str>() {
            s.to_string()
        } else if let Some(s) = info.payload().downcast_ref::<String>() {
            s.clone()
        } else {
            "<non-string payload>".to_string()
        };
        let bt = std::backtrace::Backtrace::force_capture().to_string();
        let mut frame = String::new();
        for l in bt.lines() {
            let l = l.trim();
            if let Some(rest) = l.strip_prefix("at ") {
                if rest.contains("/rustemo/src/") {
                    let mut parts = rest.rsplitn(2, ':');
                    let _col = parts.next();
                    frame = parts.next().unwrap_or(rest).to_string();
                    break;
                }
            }
        }
        LAST_PANIC.with(|p| *p.borrow_mut() = Some(PanicInfo { file, line, msg, frame }));
    }));
}

/// Turns the result of `catch_unwind` around a parse into a `RunOut`.
pub fn finish_run(r: std::thread::Result<Out>) -> RunOut {
    let out = match r {
        Ok(o) => o,
        Err(payload) => {
            if payload.downcast_ref::<BudgetExceeded>().is_some() {
                Out::Budget
            } else {
                Out::Panic(LAST_PANIC.with(|p| p.borrow_mut().take()).unwrap_or(PanicInfo { file: "?".into(), line: 0, msg: "?".into(), frame: String::new() }))
            }
        }
    };
    SIM.with(|s| {
        let mut s = s.borrow_mut();
        RunOut {
            out,
            events: s.events,
            lexer_calls: s.lexer_calls,
            faults_fired: std::mem::take(&mut s.fired),
            empty_cell: s.empty_cell,
            calls: std::mem::take(&mut s.calls),
            stop_was_expected: s.stop_was_expected,
        }
    })
}

pub fn error_to_out(e: rustemo::Error) -> Out {
    match e {
        rustemo::Error::ParseError(pe) => {
            let (pos, line, column, end_pos, has_span) = match pe.span {
                Some(sp) => (sp.start.pos, sp.start.line(), sp.start.column(), sp.end.pos, true),
                None => (0, None, None, 0, false),
            };
            Out::ParseErr { pos, line, column, end_pos, has_span, msg: pe.message.clone() }
        }
        rustemo::Error::IOError(e) => Out::IoErr(e.to_string()),
    }
}

// ---- CountingDef ----------------------------------------------------------

pub struct CountingDef<D: 'static>(pub &'static D);

impl<S, P, TK, NTK, D> ParserDefinition<S, P, TK, NTK> for CountingDef<D>
where
    D: ParserDefinition<S, P, TK, NTK>,
{
    fn actions(&self, state: S, token: TK) -> Vec<Action<S, P>> {
        tick();
        let a = self.0.actions(state, token);
        if a.is_empty() {
            SIM.with(|s| s.borrow_mut().empty_cell = true);
        }
        a
    }
    fn goto(&self, state: S, nonterm: NTK) -> S {
        tick();
        self.0.goto(state, nonterm)
    }
    fn expected_token_kinds(&self, state: S) -> Vec<(TK, bool)> {
        tick();
        self.0.expected_token_kinds(state)
    }
    fn longest_match() -> bool {
        D::longest_match()
    }
    fn grammar_order() -> bool {
        D::grammar_order()
    }
}

// ---- FaultLexer -------------------------------------------------------------

pub struct FaultLexer<L, TK: 'static> {
    pub inner: L,
    pub all: &'static [TK],
}

impl<'i, C, S, TK, L, I> Lexer<'i, C, S, TK> for FaultLexer<L, TK>
where
    L: Lexer<'i, C, S, TK, Input = I>,
    C: Context<'i, I, S, TK>,
    S: State + Into<usize>,
    TK: Copy + PartialEq + Default + Into<usize> + 'i,
    I: Input + ?Sized + 'i,
{
    type Input = I;

    fn next_tokens(&self, context: &mut C, input: &'i I, expected: Vec<(TK, bool)>) -> Box<dyn Iterator<Item = Token<'i, I, TK>> + 'i> {
        tick();
        let (call_no, ignore, record) = SIM.with(|s| {
            let mut s = s.borrow_mut();
            s.lexer_calls += 1;
            (s.lexer_calls, s.ignore_expected, s.record)
        });
        let state: usize = context.state().into();
        let pos_before = context.position().pos;
        let exp: Vec<(TK, bool)> = if ignore { self.all.iter().map(|k| (*k, false)).collect() } else { expected.clone() };
        let mut toks: Vec<Token<'i, I, TK>> = self.inner.next_tokens(context, input, exp).collect();
        let pos = context.position();
        let fault = SIM.with(|s| s.borrow().faults.iter().find(|f| f.at_call == call_no).cloned());
        if let Some(f) = fault {
            let unexpected: Vec<TK> = self.all.iter().copied().filter(|k| !expected.iter().any(|e| e.0 == *k)).collect();
            let stop = TK::default();
            let mut fired = false;
            match f.kind {
                FaultKind::WrongKind => {
                    if !unexpected.is_empty() && !toks.is_empty() {
                        let k = unexpected[f.param as usize % unexpected.len()];
                        for t in toks.iter_mut() {
                            t.kind = k;
                        }
                        fired = true;
                    }
                }
                FaultKind::PrematureStop => {
                    if pos.pos < input.len() {
                        let value = &input[pos.pos..pos.pos];
                        toks = vec![Token { kind: stop, value, span: value.span_from(pos) }];
                        fired = true;
                        let exp_stop = expected.iter().any(|e| e.0 == stop);
                        SIM.with(|s| s.borrow_mut().stop_was_expected = exp_stop);
                    }
                }
                FaultKind::WithholdStop => {
                    let before = toks.len();
                    toks.retain(|t| t.kind != stop);
                    fired = toks.len() != before;
                }
                FaultKind::ExtraBefore | FaultKind::ExtraAfter => {
                    if !unexpected.is_empty() {
                        let k = unexpected[f.param as usize % unexpected.len()];
                        let extra = match toks.first() {
                            Some(t) => Token { kind: k, value: t.value, span: t.span },
                            None => {
                                let value = &input[pos.pos..pos.pos];
                                Token { kind: k, value, span: value.span_from(pos) }
                            }
                        };
                        // a zero-width non-STOP token is outside the lexer
                        // contract (a correct parser may shift it forever)
                        if extra.value.len() > 0 || k == stop {
                            if f.kind == FaultKind::ExtraBefore {
                                toks.insert(0, extra);
                            } else {
                                toks.push(extra);
                            }
                            fired = true;
                        }
                    }
                }
                FaultKind::Nothing => {
                    fired = !toks.is_empty();
                    toks.clear();
                }
            }
            SIM.with(|s| s.borrow_mut().fired.push((f.kind, fired)));
        }
        if record {
            let rec = CallRec {
                state: state as u32,
                pos: pos_before as u32,
                pos_after: pos.pos as u32,
                toks: toks.iter().map(|t| TokRec { kind: t.kind.into() as u32, start: t.span.start.pos as u32, end: t.span.end.pos as u32 }).collect(),
            };
            SIM.with(|s| s.borrow_mut().calls.push(rec));
        }
        Box::new(toks.into_iter())
    }
}

// ---- tree -> leaves ---------------------------------------------------------

pub fn leaves<'i, I: Input + ?Sized, P, TK: Copy + Into<usize>>(node: &rustemo::TreeNode<'i, I, P, TK>, out: &mut Vec<TokRec>) {
    // iterative: inputs can be long and left-recursive trees deep
    let mut stack = vec![node];
    let mut acc: Vec<TokRec> = vec![];
    while let Some(n) = stack.pop() {
        match n {
            rustemo::TreeNode::TermNode { token, .. } => acc.push(TokRec { kind: token.kind.into() as u32, start: token.span.start.pos as u32, end: token.span.end.pos as u32 }),
            rustemo::TreeNode::NonTermNode { children, .. } => {
                for c in children.iter().rev() {
                    stack.push(c);
                }
            }
        }
    }
    out.extend(acc);
}

/// Inputs above this size are "long streams": the harness then avoids every
/// recursive walk of its own (tree extraction from a forest, recursive drop
/// glue of a deep result) so that only a recursion *inside parse* can exhaust
/// the stack.
pub const LONG_INPUT: usize = 8192;

/// Dismantles a tree without recursion (the automatic drop glue of a deep,
/// left-nested tree recurses once per level; that happens in the user's code
/// after `parse` returned and is not what C15 is about).
pub fn drop_tree<'i, I: Input + ?Sized, P, TK>(node: rustemo::TreeNode<'i, I, P, TK>) {
    let mut stack = vec![node];
    while let Some(n) = stack.pop() {
        if let rustemo::TreeNode::NonTermNode { children, .. } = n {
            stack.extend(children);
        }
    }
}

/// The parser value of a single `run` is leaked, not dropped: after an error
/// the builder inside an `LRParser` still holds deep partial trees, and their
/// recursive drop glue runs in the user's code, not in `parse`.  (Runs happen
/// in short-lived forked children.)
pub fn leak_parser<'a, T: 'a>(p: T) -> &'a mut T {
    Box::leak(Box::new(p))
}

// ---- driver macros ------------------------------------------------------------

#[macro_export]
macro_rules! lr_case {
    ($m:ident, $id:expr, $layout:expr, $partial:expr, $has_layout:expr, $skip_ws:expr) => {{
        use $crate::case::*;
        use $crate::parsers::$m as g;
        struct C;
        static DEF: CountingDef<g::Def> = CountingDef(&g::PARSER_DEFINITION);
        impl ParserCase for C {
            fn id(&self) -> &'static str { $id }
            fn layout(&self) -> &'static str { $layout }
            fn glr(&self) -> bool { false }
            fn partial(&self) -> bool { $partial }
            fn has_layout(&self) -> bool { $has_layout }
            fn bytes_input(&self) -> bool { false }
            fn token_kind_names(&self) -> &'static [&'static str] { g::TOKEN_KIND_NAMES }
            fn any_recognizer_matches(&self, text: &str) -> Option<bool> {
                use rustemo::TokenRecognizer as _;
                Some(g::RECOGNIZERS.iter().skip(1).any(|r| matches!(r.recognize(text), Some(m) if !m.is_empty())))
            }
            fn run(&self, input: &[u8], cfg: &RunCfg) -> RunOut {
                sim_reset(cfg);
                let via_file = cfg.via_file.clone();
                let text = std::str::from_utf8(input).ok();
                if via_file.is_none() && text.is_none() {
                    return finish_run(Ok(Out::NotApplicable));
                }
                let r = std::panic::catch_unwind(std::panic::AssertUnwindSafe(|| {
                    let lexer = FaultLexer {
                        inner: rustemo::StringLexer::<g::Context<'_, str>, _, _, _, _>::new($skip_ws, &g::RECOGNIZERS),
                        all: g::ALL_TOKEN_KINDS,
                    };
                    let parser = leak_parser(rustemo::LRParser::new(&DEF, g::State::default(), $partial, $has_layout, lexer, rustemo::TreeBuilder::new()));
                    use rustemo::Parser as _;
                    let res = match &via_file {
                        Some(p) => parser.parse_file(p),
                        None => parser.parse(text.unwrap()),
                    };
                    let out = match res {
                        Ok(tree) => {
                            let mut l = vec![];
                            leaves(&tree, &mut l);
                            drop_tree(tree);
                            Out::Ok { leaves: l, solutions: 1 }
                        }
                        Err(e) => error_to_out(e),
                    };
                    out
                }));
                finish_run(r)
            }
            fn run_seq(&self, inputs: &[Vec<u8>], cfg: &RunCfg) -> Vec<RunOut> {
                let texts: Vec<Option<&str>> = inputs.iter().map(|b| std::str::from_utf8(b).ok()).collect();
                let lexer = FaultLexer {
                    inner: rustemo::StringLexer::<g::Context<'_, str>, _, _, _, _>::new($skip_ws, &g::RECOGNIZERS),
                    all: g::ALL_TOKEN_KINDS,
                };
                let parser = rustemo::LRParser::new(&DEF, g::State::default(), $partial, $has_layout, lexer, rustemo::TreeBuilder::new());
                use rustemo::Parser as _;
                let mut outs = vec![];
                for t in texts {
                    sim_reset(cfg);
                    let t = match t {
                        Some(t) => t,
                        None => {
                            outs.push(finish_run(Ok(Out::NotApplicable)));
                            continue;
                        }
                    };
                    let r = std::panic::catch_unwind(std::panic::AssertUnwindSafe(|| match parser.parse(t) {
                        Ok(tree) => {
                            let mut l = vec![];
                            leaves(&tree, &mut l);
                            drop_tree(tree);
                            Out::Ok { leaves: l, solutions: 1 }
                        }
                        Err(e) => error_to_out(e),
                    }));
                    outs.push(finish_run(r));
                }
                outs
            }
        }
        Box::new(C) as Box<dyn ParserCase>
    }};
}

/// LR parser with the *generated* DefaultBuilder (and generated actions).
/// The result is an AST value of a grammar-specific type: no leaves.
#[macro_export]
macro_rules! lr_def_case {
    ($m:ident, $id:expr, $partial:expr, $has_layout:expr, $skip_ws:expr) => {{
        use $crate::case::*;
        use $crate::parsers::$m as g;
        struct C;
        static DEF: CountingDef<g::Def> = CountingDef(&g::PARSER_DEFINITION);
        impl ParserCase for C {
            fn id(&self) -> &'static str { $id }
            fn layout(&self) -> &'static str { "def" }
            fn glr(&self) -> bool { false }
            fn partial(&self) -> bool { $partial }
            fn has_layout(&self) -> bool { $has_layout }
            fn bytes_input(&self) -> bool { false }
            fn token_kind_names(&self) -> &'static [&'static str] { g::TOKEN_KIND_NAMES }
            fn run(&self, input: &[u8], cfg: &RunCfg) -> RunOut {
                sim_reset(cfg);
                let via_file = cfg.via_file.clone();
                let text = std::str::from_utf8(input).ok();
                if via_file.is_none() && text.is_none() {
                    return finish_run(Ok(Out::NotApplicable));
                }
                let r = std::panic::catch_unwind(std::panic::AssertUnwindSafe(|| {
                    let lexer = FaultLexer {
                        inner: rustemo::StringLexer::<g::Context<'_, str>, _, _, _, _>::new($skip_ws, &g::RECOGNIZERS),
                        all: g::ALL_TOKEN_KINDS,
                    };
                    let parser = leak_parser(rustemo::LRParser::new(&DEF, g::State::default(), $partial, $has_layout, lexer, g::DefaultBuilder::new()));
                    use rustemo::Parser as _;
                    let res = match &via_file {
                        // the AST is forgotten, not dropped: drop glue of a deep
                        // generated AST recurses in the user's code, after parse
                        Some(p) => parser.parse_file(p).map(std::mem::forget),
                        None => parser.parse(text.unwrap()).map(std::mem::forget),
                    };
                    let out = match res {
                        Ok(()) => Out::Ok { leaves: vec![], solutions: 1 },
                        Err(e) => error_to_out(e),
                    };
                    out
                }));
                finish_run(r)
            }
            fn run_seq(&self, inputs: &[Vec<u8>], cfg: &RunCfg) -> Vec<RunOut> {
                let texts: Vec<Option<&str>> = inputs.iter().map(|b| std::str::from_utf8(b).ok()).collect();
                let lexer = FaultLexer {
                    inner: rustemo::StringLexer::<g::Context<'_, str>, _, _, _, _>::new($skip_ws, &g::RECOGNIZERS),
                    all: g::ALL_TOKEN_KINDS,
                };
                let parser = rustemo::LRParser::new(&DEF, g::State::default(), $partial, $has_layout, lexer, g::DefaultBuilder::new());
                use rustemo::Parser as _;
                let mut outs = vec![];
                for t in texts {
                    sim_reset(cfg);
                    let t = match t {
                        Some(t) => t,
                        None => {
                            outs.push(finish_run(Ok(Out::NotApplicable)));
                            continue;
                        }
                    };
                    let r = std::panic::catch_unwind(std::panic::AssertUnwindSafe(|| match parser.parse(t) {
                        Ok(ast) => {
                            std::mem::forget(ast);
                            Out::Ok { leaves: vec![], solutions: 1 }
                        }
                        Err(e) => error_to_out(e),
                    }));
                    outs.push(finish_run(r));
                }
                outs
            }
        }
        Box::new(C) as Box<dyn ParserCase>
    }};
}

#[macro_export]
macro_rules! glr_case {
    ($m:ident, $id:expr, $layout:expr, $partial:expr, $has_layout:expr, $skip_ws:expr, $cyclic:expr) => {{
        use $crate::case::*;
        use $crate::parsers::$m as g;
        struct C;
        static DEF: CountingDef<g::Def> = CountingDef(&g::PARSER_DEFINITION);
        impl ParserCase for C {
            fn id(&self) -> &'static str { $id }
            fn layout(&self) -> &'static str { $layout }
            fn glr(&self) -> bool { true }
            fn partial(&self) -> bool { $partial }
            fn has_layout(&self) -> bool { $has_layout }
            fn bytes_input(&self) -> bool { false }
            fn cyclic(&self) -> bool { $cyclic }
            fn token_kind_names(&self) -> &'static [&'static str] { g::TOKEN_KIND_NAMES }
            fn any_recognizer_matches(&self, text: &str) -> Option<bool> {
                use rustemo::TokenRecognizer as _;
                Some(g::RECOGNIZERS.iter().skip(1).any(|r| matches!(r.recognize(text), Some(m) if !m.is_empty())))
            }
            fn run(&self, input: &[u8], cfg: &RunCfg) -> RunOut {
                sim_reset(cfg);
                let via_file = cfg.via_file.clone();
                let text = std::str::from_utf8(input).ok();
                if via_file.is_none() && text.is_none() {
                    return finish_run(Ok(Out::NotApplicable));
                }
                let r = std::panic::catch_unwind(std::panic::AssertUnwindSafe(|| {
                    let lexer = FaultLexer {
                        inner: rustemo::StringLexer::<g::Context<'_, str>, _, _, _, _>::new($skip_ws, &g::RECOGNIZERS),
                        all: g::ALL_TOKEN_KINDS,
                    };
                    let mut parser: rustemo::GlrParser<'_, g::State, _, g::ProdKind, g::TokenKind, g::NonTermKind, CountingDef<g::Def>, str, ()> =
                        rustemo::GlrParser::new(&DEF, $partial, $has_layout, lexer);
                    use rustemo::Parser as _;
                    let res = match &via_file {
                        Some(p) => parser.parse_file(p),
                        None => parser.parse(text.unwrap()),
                    };
                    match res {
                        Ok(forest) => {
                            // walking a cyclic forest overflows the stack (a
                            // documented open TODO, outside "calling parse")
                            if $cyclic {
                                return Out::Ok { leaves: vec![], solutions: 0 };
                            }
                            if input.len() > LONG_INPUT {
                                // no recursive walk / drop of a deep forest in the harness
                                std::mem::forget(forest);
                                return Out::Ok { leaves: vec![], solutions: 0 };
                            }
                            // Extracting a tree is post-processing outside
                            // "calling parse" (counting solutions of a large
                            // forest may overflow): failures here are ignored.
                            let l = std::panic::catch_unwind(std::panic::AssertUnwindSafe(|| {
                                let mut l = vec![];
                                if let Some(tree) = forest.get_first_tree() {
                                    let mut b = rustemo::TreeBuilder::<str, g::ProdKind, g::TokenKind>::new();
                                    let node = tree.build::<_, g::State>(&mut b);
                                    leaves(&node, &mut l);
                                }
                                l
                            }));
                            match l {
                                Ok(l) => Out::Ok { leaves: l, solutions: 1 },
                                Err(_) => Out::Ok { leaves: vec![], solutions: 0 },
                            }
                        }
                        Err(e) => error_to_out(e),
                    }
                }));
                finish_run(r)
            }
            fn run_seq(&self, inputs: &[Vec<u8>], cfg: &RunCfg) -> Vec<RunOut> {
                let texts: Vec<Option<&str>> = inputs.iter().map(|b| std::str::from_utf8(b).ok()).collect();
                let lexer = FaultLexer {
                    inner: rustemo::StringLexer::<g::Context<'_, str>, _, _, _, _>::new($skip_ws, &g::RECOGNIZERS),
                    all: g::ALL_TOKEN_KINDS,
                };
                let parser: rustemo::GlrParser<'_, g::State, _, g::ProdKind, g::TokenKind, g::NonTermKind, CountingDef<g::Def>, str, ()> =
                    rustemo::GlrParser::new(&DEF, $partial, $has_layout, lexer);
                use rustemo::Parser as _;
                let mut outs = vec![];
                for t in texts {
                    sim_reset(cfg);
                    let t = match t {
                        Some(t) => t,
                        None => {
                            outs.push(finish_run(Ok(Out::NotApplicable)));
                            continue;
                        }
                    };
                    let r = std::panic::catch_unwind(std::panic::AssertUnwindSafe(|| match parser.parse(t) {
                        Ok(forest) => {
                            if $cyclic {
                                return Out::Ok { leaves: vec![], solutions: 0 };
                            }
                            if t.len() > LONG_INPUT {
                                std::mem::forget(forest);
                                return Out::Ok { leaves: vec![], solutions: 0 };
                            }
                            let l = std::panic::catch_unwind(std::panic::AssertUnwindSafe(|| {
                                let mut l = vec![];
                                if let Some(tree) = forest.get_first_tree() {
                                    let mut b = rustemo::TreeBuilder::<str, g::ProdKind, g::TokenKind>::new();
                                    let node = tree.build::<_, g::State>(&mut b);
                                    leaves(&node, &mut l);
                                }
                                l
                            }));
                            match l {
                                Ok(l) => Out::Ok { leaves: l, solutions: 1 },
                                Err(_) => Out::Ok { leaves: vec![], solutions: 0 },
                            }
                        }
                        Err(e) => error_to_out(e),
                    }));
                    outs.push(finish_run(r));
                }
                outs
            }
        }
        Box::new(C) as Box<dyn ParserCase>
    }};
}

#[macro_export]
macro_rules! lr_bytes_case {
    ($m:ident, $id:expr, $layout:expr, $lexer:ident) => {{
        use $crate::case::*;
        use $crate::parsers::$m as g;
        struct C;
        static DEF: CountingDef<g::Def> = CountingDef(&g::PARSER_DEFINITION);
        impl ParserCase for C {
            fn id(&self) -> &'static str { $id }
            fn layout(&self) -> &'static str { $layout }
            fn glr(&self) -> bool { false }
            fn partial(&self) -> bool { false }
            fn has_layout(&self) -> bool { false }
            fn bytes_input(&self) -> bool { true }
            fn token_kind_names(&self) -> &'static [&'static str] { g::TOKEN_KIND_NAMES }
            fn run(&self, input: &[u8], cfg: &RunCfg) -> RunOut {
                sim_reset(cfg);
                let via_file = cfg.via_file.clone();
                let r = std::panic::catch_unwind(std::panic::AssertUnwindSafe(|| {
                    let lexer = FaultLexer { inner: g::user_lexer::$lexer::new(), all: g::ALL_TOKEN_KINDS };
                    let parser = leak_parser(rustemo::LRParser::new(&DEF, g::State::default(), false, false, lexer, rustemo::TreeBuilder::new()));
                    use rustemo::Parser as _;
                    let res = match &via_file {
                        Some(p) => parser.parse_file(p),
                        None => parser.parse(input),
                    };
                    let out = match res {
                        Ok(tree) => {
                            let mut l = vec![];
                            leaves(&tree, &mut l);
                            drop_tree(tree);
                            Out::Ok { leaves: l, solutions: 1 }
                        }
                        Err(e) => error_to_out(e),
                    };
                    out
                }));
                finish_run(r)
            }
        }
        Box::new(C) as Box<dyn ParserCase>
    }};
}
