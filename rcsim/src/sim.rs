//! The simulated project world: scratch tree, environment, identity, faults,
//! execution vehicle.  One `run_world` = one compile of the target grammar in
//! a child process forked for it (DESIGN.md 3.3), with every source of
//! nondeterminism behind the shim.

use crate::prng::{fnv64, Rng};
use crate::shim::{Shim, ShimStat, SimEvent};
use crate::spec::Spec;
use serde_json::{json, Value};
use std::collections::BTreeMap;
use std::ffi::CString;
use std::os::unix::ffi::OsStrExt;
use std::path::{Path, PathBuf};

#[derive(Clone, Debug, PartialEq, Eq)]
pub struct GrammarSrc {
    pub id: String,
    pub stem: String,
    pub bytes: Vec<u8>,
}

impl GrammarSrc {
    pub fn to_json(&self) -> Value {
        match std::str::from_utf8(&self.bytes) {
            Ok(s) => json!({"id": self.id, "stem": self.stem, "text": s}),
            Err(_) => json!({"id": self.id, "stem": self.stem, "hex": hex(&self.bytes)}),
        }
    }
    pub fn from_json(v: &Value) -> Option<GrammarSrc> {
        let bytes = if let Some(t) = v.get("text").and_then(|t| t.as_str()) {
            t.as_bytes().to_vec()
        } else {
            unhex(v.get("hex")?.as_str()?)?
        };
        Some(GrammarSrc { id: v.get("id")?.as_str()?.into(), stem: v.get("stem")?.as_str()?.into(), bytes })
    }
}

pub fn hex(b: &[u8]) -> String {
    let mut s = String::with_capacity(b.len() * 2);
    for x in b {
        s.push_str(&format!("{x:02x}"));
    }
    s
}
pub fn unhex(s: &str) -> Option<Vec<u8>> {
    if s.len() % 2 != 0 {
        return None;
    }
    (0..s.len() / 2).map(|i| u8::from_str_radix(&s[2 * i..2 * i + 2], 16).ok()).collect()
}

#[derive(Clone, Copy, Debug, PartialEq, Eq)]
pub enum Vehicle {
    /// `Settings::process_grammar` in a fresh thread of the forked child
    Thread,
    /// `Settings::process_dir` over the project (readdir order permuted)
    ProcessDir,
    /// the real `rcomp` binary, spawned with the shim preloaded
    Rcomp,
    /// `rcomp <dir>`
    RcompDir,
}

#[derive(Clone, Copy, Debug, PartialEq, Eq)]
pub struct Fault {
    pub event: u64,
    pub kind: u8,
    pub arg: i32,
}

#[derive(Clone, Debug)]
pub struct World {
    pub hash_seed: u64,
    pub dir_seed: u64,
    pub epoch: i64,
    pub pid: u32,
    pub tty: bool,
    pub env: Vec<(String, String)>,
    /// communicate root/out dirs through CARGO_MANIFEST_DIR / OUT_DIR
    pub env_defaults: bool,
    /// 0 = project root, 1 = a sibling directory, 2 = "/"
    pub cwd: u8,
    /// grammar path given relative to the cwd (only if cwd == 0)
    pub rel_path: bool,
    /// name of the project directory (a path component that must not leak)
    pub proj_name: String,
    /// pre-existing outputs: 0 none, 1 shorter, 2 longer, 3 garbage
    pub stale: u8,
    /// grammars compiled before the target in the same thread (Thread vehicle)
    /// or living in the same project (dir vehicles)
    pub neighbours: Vec<(GrammarSrc, Spec)>,
    pub vehicle: Vehicle,
    pub faults: Vec<Fault>,
    /// user state: a pre-existing actions file (meaningful with force off);
    /// the same bytes in every world of a comparison
    pub existing_actions: Option<Vec<u8>>,
    /// timestamps of the files the world starts with: 0 = as written (grammar
    /// first, then pre-existing outputs), 1 = the grammar is years older than
    /// everything else, 2 = pre-existing outputs are years older than the
    /// grammar, 3 = all at the same second
    pub mtime_mode: u8,
}

impl World {
    pub fn reference() -> World {
        World {
            hash_seed: 0,
            dir_seed: 0,
            epoch: 1_700_000_000,
            pid: 4242,
            tty: false,
            env: vec![],
            env_defaults: false,
            cwd: 0,
            rel_path: false,
            proj_name: "proj".into(),
            stale: 0,
            neighbours: vec![],
            vehicle: Vehicle::Thread,
            faults: vec![],
            existing_actions: None,
            mtime_mode: 0,
        }
    }
    pub fn to_json(&self) -> Value {
        json!({
            "hash_seed": self.hash_seed.to_string(), "dir_seed": self.dir_seed.to_string(),
            "epoch": self.epoch, "pid": self.pid, "tty": self.tty,
            "env": self.env.iter().map(|(k, v)| json!([k, v])).collect::<Vec<_>>(),
            "env_defaults": self.env_defaults, "cwd": self.cwd, "rel_path": self.rel_path,
            "proj_name": self.proj_name, "stale": self.stale,
            "neighbours": self.neighbours.iter().map(|(g, s)| json!({"grammar": g.to_json(), "spec": s.to_json()})).collect::<Vec<_>>(),
            "vehicle": match self.vehicle { Vehicle::Thread => "thread", Vehicle::ProcessDir => "process_dir", Vehicle::Rcomp => "rcomp", Vehicle::RcompDir => "rcomp_dir" },
            "faults": self.faults.iter().map(|f| json!({"event": f.event, "kind": f.kind, "arg": f.arg})).collect::<Vec<_>>(),
            "mtime_mode": self.mtime_mode,
            "existing_actions_hex": self.existing_actions.as_ref().map(|a| hex(a)),
        })
    }
    pub fn from_json(v: &Value) -> Option<World> {
        Some(World {
            hash_seed: v.get("hash_seed")?.as_str()?.parse().ok()?,
            dir_seed: v.get("dir_seed")?.as_str()?.parse().ok()?,
            epoch: v.get("epoch")?.as_i64()?,
            pid: v.get("pid")?.as_u64()? as u32,
            tty: v.get("tty")?.as_bool()?,
            env: v
                .get("env")?
                .as_array()?
                .iter()
                .map(|e| Some((e.get(0)?.as_str()?.to_string(), e.get(1)?.as_str()?.to_string())))
                .collect::<Option<Vec<_>>>()?,
            env_defaults: v.get("env_defaults")?.as_bool()?,
            cwd: v.get("cwd")?.as_u64()? as u8,
            rel_path: v.get("rel_path")?.as_bool()?,
            proj_name: v.get("proj_name")?.as_str()?.to_string(),
            stale: v.get("stale")?.as_u64()? as u8,
            neighbours: v
                .get("neighbours")?
                .as_array()?
                .iter()
                .map(|n| Some((GrammarSrc::from_json(n.get("grammar")?)?, Spec::from_json(n.get("spec")?)?)))
                .collect::<Option<Vec<_>>>()?,
            vehicle: match v.get("vehicle")?.as_str()? {
                "thread" => Vehicle::Thread,
                "process_dir" => Vehicle::ProcessDir,
                "rcomp" => Vehicle::Rcomp,
                "rcomp_dir" => Vehicle::RcompDir,
                _ => return None,
            },
            faults: v
                .get("faults")?
                .as_array()?
                .iter()
                .map(|f| Some(Fault { event: f.get("event")?.as_u64()?, kind: f.get("kind")?.as_u64()? as u8, arg: f.get("arg")?.as_i64()? as i32 }))
                .collect::<Option<Vec<_>>>()?,
            existing_actions: match v.get("existing_actions_hex") {
                Some(Value::String(h)) => Some(unhex(h)?),
                _ => None,
            },
            mtime_mode: v.get("mtime_mode").and_then(|x| x.as_u64()).unwrap_or(0) as u8,
        })
    }
}

/// World dimension `mtime_mode`: back-date the grammar or the pre-existing
/// outputs (fixed instants, no clock read).
fn apply_mtimes(world: &World, spec: &Spec, l: &Layout, target: &GrammarSrc) {
    if world.mtime_mode == 0 {
        return;
    }
    let old = std::time::UNIX_EPOCH + std::time::Duration::from_secs(978_307_200); // 2001
    let set = |p: &Path| {
        if let Ok(f) = std::fs::File::options().append(true).open(p) {
            let _ = f.set_modified(old);
        }
    };
    let pdir = if spec.parser_in_out() { l.out.join("src") } else { l.src.clone() };
    let adir = if spec.actions_in_out() { l.out_act.join("src") } else { l.src.clone() };
    let outputs = [pdir.join(format!("{}.rs", target.stem)), adir.join(format!("{}_actions.rs", target.stem))];
    match world.mtime_mode {
        1 => set(&l.grammar),
        2 => outputs.iter().for_each(|p| set(p)),
        _ => {
            set(&l.grammar);
            outputs.iter().for_each(|p| set(p));
        }
    }
}

#[derive(Clone, Debug, PartialEq, Eq)]
pub struct PanicInfo {
    /// file of the panic location as reported by std
    pub file: String,
    pub line: u32,
    pub msg: String,
    /// first frame of the backtrace that lies in /repo/rustemo*: "file:line"
    pub frame: String,
}

#[derive(Clone, Debug, PartialEq, Eq)]
pub enum Class {
    Ok,
    Err(String),
    Panic(PanicInfo),
    /// child died: signal number or exit status
    Abort(String),
    Timeout,
}

impl Class {
    pub fn tag(&self) -> &'static str {
        match self {
            Class::Ok => "ok",
            Class::Err(_) => "err",
            Class::Panic(_) => "panic",
            Class::Abort(_) => "abort",
            Class::Timeout => "timeout",
        }
    }
}

#[derive(Clone, Debug)]
pub struct Outcome {
    pub class: Class,
    /// generated files found under the case directory, keyed by file name;
    /// value = list of (path relative to the case dir, bytes)
    pub files: BTreeMap<String, Vec<(String, Vec<u8>)>>,
    pub stat: ShimStat,
    pub events: Vec<SimEvent>,
    /// hash of the iteration order of a canary HashMap inside the compile thread
    pub canary: u64,
    /// neighbours that did not produce a parser file (dir vehicles)
    pub neighbours_failed: usize,
    /// text the compiler wrote to stdout/stderr (rcomp vehicles only)
    pub console: String,
}

impl Outcome {
    pub fn file(&self, name: &str) -> Option<Vec<u8>> {
        self.files.get(name).map(|v| {
            let mut all = vec![];
            for (_, b) in v {
                all.extend_from_slice(b);
            }
            all
        })
    }
    pub fn trace_hash(&self) -> u64 {
        let mut buf = vec![];
        for e in &self.events {
            buf.extend_from_slice(&[e.op, e.fault]);
            buf.extend_from_slice(&e.err.to_le_bytes());
            buf.extend_from_slice(&e.ret.to_le_bytes());
            buf.extend_from_slice(&e.path_hash.to_le_bytes());
        }
        fnv64(&buf)
    }
}

pub fn empty_outcome() -> Outcome {
    Outcome { class: Class::Ok, files: BTreeMap::new(), stat: ShimStat::default(), events: vec![], canary: 0, neighbours_failed: 0, console: String::new() }
}

pub struct Env {
    pub shim: Shim,
    /// per-worker scratch root on tmpfs
    pub scratch: PathBuf,
    pub rcomp: PathBuf,
    pub shim_so: PathBuf,
    /// wall-clock backstop per child in ms
    /// wall-clock backstop per compile; lowered after the first hangs of a run
    pub timeout_ms: std::cell::Cell<i32>,
    pub timeouts_seen: std::cell::Cell<u32>,
}

pub fn case_dir(env: &Env) -> PathBuf {
    env.scratch.join("c")
}

pub struct Layout {
    pub case: PathBuf,
    pub proj: PathBuf,
    pub src: PathBuf,
    pub grammar: PathBuf,
    pub out: PathBuf,
    pub out_act: PathBuf,
}

pub fn layout(env: &Env, target: &GrammarSrc, world: &World) -> Layout {
    let case = case_dir(env);
    let proj = case.join(&world.proj_name);
    let src = proj.join("src");
    let grammar = src.join(format!("{}.rustemo", target.stem));
    let out = case.join("out");
    let out_act = if world.env_defaults { out.clone() } else { case.join("out_act") };
    Layout { case, proj, src, grammar, out, out_act }
}

fn stale_bytes(kind: u8, which: &str) -> Option<Vec<u8>> {
    match kind {
        1 => Some(format!("// stale {which}\n").into_bytes()),
        2 => {
            let mut v = format!("// stale longer {which}\n").into_bytes();
            for i in 0..20000 {
                v.extend_from_slice(format!("// filler line {i} of a previous, longer, generation\n").as_bytes());
            }
            Some(v)
        }
        3 => Some(vec![0xff, 0xfe, 0x00, b'{', b'{', 0x80, b'\n']),
        _ => None,
    }
}

/// Builds the scratch tree for one world (real I/O, shim not armed).
pub fn prepare(env: &Env, target: &GrammarSrc, spec: &Spec, world: &World) -> std::io::Result<Layout> {
    let l = layout(env, target, world);
    let _ = std::fs::remove_dir_all(&l.case);
    std::fs::create_dir_all(&l.src)?;
    std::fs::create_dir_all(l.proj.join("other"))?;
    std::fs::write(&l.grammar, &target.bytes)?;
    for (i, (g, _)) in world.neighbours.iter().enumerate() {
        // Thread vehicle: neighbours are separate projects (their outputs must
        // not be mistaken for the target's); dir vehicles: same project.
        let d = if world.vehicle == Vehicle::Thread { l.case.join(format!("nbproj{i}")) } else { l.src.join(format!("nb{i}")) };
        std::fs::create_dir_all(&d)?;
        std::fs::write(d.join(format!("{}.rustemo", g.stem)), &g.bytes)?;
    }
    if world.stale != 0 {
        let pdir = if spec.parser_in_out() { l.out.join("src") } else { l.src.clone() };
        let adir = if spec.actions_in_out() { l.out_act.join("src") } else { l.src.clone() };
        std::fs::create_dir_all(&pdir)?;
        std::fs::create_dir_all(&adir)?;
        if let Some(b) = stale_bytes(world.stale, "parser") {
            std::fs::write(pdir.join(format!("{}.rs", target.stem)), b)?;
        }
        // a stale actions file is only "stale" when overwriting is forced;
        // otherwise it is user state (C18's business)
        if spec.force {
            if let Some(b) = stale_bytes(world.stale, "actions") {
                std::fs::write(adir.join(format!("{}_actions.rs", target.stem)), b)?;
            }
        }
    }
    Ok(l)
}

fn collect(dir: &Path, base: &Path, stale: &[Vec<u8>], out: &mut BTreeMap<String, Vec<(String, Vec<u8>)>>) {
    let mut entries: Vec<PathBuf> = match std::fs::read_dir(dir) {
        Ok(rd) => rd.filter_map(|e| e.ok().map(|e| e.path())).collect(),
        Err(_) => return,
    };
    entries.sort();
    for p in entries {
        if p.is_dir() {
            if p.file_name().map(|n| n.to_string_lossy().starts_with("nbproj")).unwrap_or(false) {
                continue;
            }
            collect(&p, base, stale, out);
        } else {
            let name = p.file_name().unwrap().to_string_lossy().to_string();
            if name.ends_with(".rustemo") {
                continue;
            }
            let rel = p.strip_prefix(base).unwrap().to_string_lossy().to_string();
            let bytes = std::fs::read(&p).unwrap_or_default();
            // a stale file the compiler did not overwrite (it wrote somewhere
            // else, or failed) is harness state, not output
            if stale.iter().any(|s| *s == bytes) {
                continue;
            }
            out.entry(name).or_default().push((rel, bytes));
        }
    }
}

// ---- child side ---------------------------------------------------------

thread_local! {
    static LAST_PANIC: std::cell::RefCell<Option<PanicInfo>> = const { std::cell::RefCell::new(None) };
}

pub fn install_panic_hook() {
    std::panic::set_hook(Box::new(|info| {
        let (file, line) = info.location().map(|l| (l.file().to_string(), l.line())).unwrap_or(("?".into(), 0));
        let msg = if let Some(s) = info.payload().downcast_ref::<&str>() {
            s.to_string()
        } else if let Some(s) = info.payload().downcast_ref::<String>() {
            s.clone()
        } else {
            "<non-string payload>".to_string()
        };
        let bt = std::backtrace::Backtrace::force_capture().to_string();
        let mut frame = String::new();
        for l in bt.lines() {
            let l = l.trim();
            if let Some(rest) = l.strip_prefix("at ") {
                if rest.contains("/rustemo-compiler/src/") || rest.contains("/rustemo/src/") {
                    // strip the column
                    let mut parts = rest.rsplitn(2, ':');
                    let _col = parts.next();
                    frame = parts.next().unwrap_or(rest).to_string();
                    break;
                }
            }
        }
        LAST_PANIC.with(|p| *p.borrow_mut() = Some(PanicInfo { file, line, msg, frame }));
    }));
}

fn canary_order() -> u64 {
    let mut m = std::collections::HashMap::new();
    for k in ["a", "b", "c", "d", "e", "f", "g", "h", "i", "j"] {
        m.insert(k, 0u8);
    }
    let order: String = m.keys().copied().collect();
    fnv64(order.as_bytes())
}

fn compile_once(spec: &Spec, l_root: &Path, out: &Path, out_act: &Path, env_defaults: bool, grammar: &Path) -> Class {
    let spec = spec.clone();
    let (root, out, out_act, grammar) = (l_root.to_path_buf(), out.to_path_buf(), out_act.to_path_buf(), grammar.to_path_buf());
    LAST_PANIC.with(|p| *p.borrow_mut() = None);
    let r = std::panic::catch_unwind(move || {
        let settings = spec.apply(&root, &out, &out_act, env_defaults);
        settings.process_grammar(&grammar)
    });
    match r {
        Ok(Ok(())) => Class::Ok,
        Ok(Err(e)) => Class::Err(e.to_string()),
        Err(_) => Class::Panic(LAST_PANIC.with(|p| p.borrow_mut().take()).unwrap_or(PanicInfo {
            file: "?".into(),
            line: 0,
            msg: "?".into(),
            frame: String::new(),
        })),
    }
}

fn class_to_json(c: &Class) -> Value {
    match c {
        Class::Ok => json!({"t": "ok"}),
        Class::Err(m) => json!({"t": "err", "msg": m}),
        Class::Panic(p) => json!({"t": "panic", "file": p.file, "line": p.line, "msg": p.msg, "frame": p.frame}),
        Class::Abort(s) => json!({"t": "abort", "msg": s}),
        Class::Timeout => json!({"t": "timeout"}),
    }
}

fn class_from_json(v: &Value) -> Option<Class> {
    Some(match v.get("t")?.as_str()? {
        "ok" => Class::Ok,
        "err" => Class::Err(v.get("msg")?.as_str()?.to_string()),
        "panic" => Class::Panic(PanicInfo {
            file: v.get("file")?.as_str()?.to_string(),
            line: v.get("line")?.as_u64()? as u32,
            msg: v.get("msg")?.as_str()?.to_string(),
            frame: v.get("frame")?.as_str()?.to_string(),
        }),
        "abort" => Class::Abort(v.get("msg")?.as_str()?.to_string()),
        "timeout" => Class::Timeout,
        _ => return None,
    })
}

fn events_to_json(ev: &[SimEvent]) -> Value {
    Value::Array(ev.iter().map(|e| json!([e.seq, e.op, e.fault, e.err, e.ret, e.path_hash])).collect())
}

fn events_from_json(v: &Value) -> Vec<SimEvent> {
    v.as_array()
        .map(|a| {
            a.iter()
                .filter_map(|e| {
                    Some(SimEvent {
                        seq: e.get(0)?.as_u64()? as u32,
                        op: e.get(1)?.as_u64()? as u8,
                        fault: e.get(2)?.as_u64()? as u8,
                        err: e.get(3)?.as_i64()? as i16,
                        ret: e.get(4)?.as_i64()? as i32,
                        path_hash: e.get(5)?.as_u64()? as u32,
                    })
                })
                .collect()
        })
        .unwrap_or_default()
}

fn world_env(world: &World, spec: &Spec, l: &Layout) -> Vec<(String, String)> {
    let mut e = world.env.clone();
    if world.env_defaults {
        e.push(("OUT_DIR".into(), l.out.to_string_lossy().into()));
        e.push(("CARGO_MANIFEST_DIR".into(), l.proj.to_string_lossy().into()));
    } else if world.vehicle == Vehicle::Rcomp && spec.out_dirs {
        // `rcomp -o DIR file` has no flag for the root dir: the documented
        // way to give it is CARGO_MANIFEST_DIR (Settings::root_dir docs).
        e.push(("CARGO_MANIFEST_DIR".into(), l.proj.to_string_lossy().into()));
    }
    e
}

fn world_cwd(world: &World, l: &Layout) -> PathBuf {
    match world.cwd {
        0 => l.proj.clone(),
        1 => l.proj.join("other"),
        _ => PathBuf::from("/"),
    }
}

fn grammar_arg(world: &World, l: &Layout) -> PathBuf {
    if world.cwd == 0 && world.rel_path {
        l.grammar.strip_prefix(&l.proj).unwrap().to_path_buf()
    } else {
        l.grammar.clone()
    }
}

/// Runs in the forked child.  Never returns.
fn child_main(env: &Env, target: &GrammarSrc, spec: &Spec, world: &World, l: &Layout, wfd: i32) -> ! {
    unsafe {
        let devnull = CString::new("/dev/null").unwrap();
        let fd = libc::open(devnull.as_ptr(), libc::O_WRONLY);
        if fd >= 0 {
            libc::dup2(fd, 1);
            libc::dup2(fd, 2);
            libc::close(fd);
        }
        libc::clearenv();
    }
    for (k, v) in world_env(world, spec, l) {
        std::env::set_var(k, v);
    }
    let _ = std::env::set_current_dir(world_cwd(world, l));
    let shim = env.shim;
    shim.reset();
    shim.set_hash_seed(world.hash_seed);
    shim.set_dir_seed(world.dir_seed);
    shim.set_epoch(world.epoch);
    shim.set_pid(world.pid);
    shim.set_tty(world.tty as u32);
    shim.set_root(&l.case.to_string_lossy());
    for f in &world.faults {
        shim.add_fault(f.event, f.kind, f.arg);
    }
    install_panic_hook();
    let garg = grammar_arg(world, l);
    let (spec2, world2) = (spec.clone(), world.clone());
    let (proj, out, out_act, case_dir) = (l.proj.clone(), l.out.clone(), l.out_act.clone(), l.case.clone());
    let stem = target.stem.clone();
    shim.reset_rand();
    let handle = std::thread::Builder::new().stack_size(64 << 20).spawn(move || {
        let mut class;
        match world2.vehicle {
            Vehicle::Thread => {
                // neighbours first: they advance the thread-local hash-key
                // counter and may flip process-global state
                for (i, (g, s)) in world2.neighbours.iter().enumerate() {
                    let nbproj = case_dir.join(format!("nbproj{i}"));
                    let gp = nbproj.join(format!("{}.rustemo", g.stem));
                    let nb_out = nbproj.join("out");
                    let _ = compile_once(s, &nbproj, &nb_out, &nb_out, false, &gp);
                }
                shim.arm(true);
                class = compile_once(&spec2, &proj, &out, &out_act, world2.env_defaults, &garg);
                shim.arm(false);
            }
            _ => {
                // process_dir over the whole project
                shim.arm(true);
                LAST_PANIC.with(|p| *p.borrow_mut() = None);
                let (sp, pr, o, oa) = (spec2.clone(), proj.clone(), out.clone(), out_act.clone());
                let envd = world2.env_defaults;
                let r = std::panic::catch_unwind(move || sp.apply(&pr, &o, &oa, envd).process_dir());
                shim.arm(false);
                class = match r {
                    Ok(Ok(())) => Class::Ok,
                    Ok(Err(e)) => Class::Err(e.to_string()),
                    Err(_) => Class::Panic(LAST_PANIC.with(|p| p.borrow_mut().take()).unwrap_or(PanicInfo {
                        file: "?".into(),
                        line: 0,
                        msg: "?".into(),
                        frame: String::new(),
                    })),
                };
                let _ = &stem;
            }
        }
        let canary = canary_order();
        if let Class::Err(m) = &mut class {
            *m = m.chars().take(600).collect();
        }
        (class, canary)
    });
    let (class, canary) = match handle.map(|h| h.join()) {
        Ok(Ok(x)) => x,
        _ => (Class::Abort("compile thread could not be joined".into()), 0),
    };
    let stat = shim.stat();
    let events = shim.log();
    let v = json!({
        "class": class_to_json(&class), "canary": canary.to_string(),
        "stat": [stat.rand_calls, stat.clock_reads, stat.events, stat.eintr, stat.short, stat.errno, stat.log_dropped, stat.pid_reads, stat.tty_reads, stat.dirs_permuted],
        "events": events_to_json(&events),
    });
    let s = v.to_string();
    unsafe {
        let mut off = 0usize;
        let b = s.as_bytes();
        while off < b.len() {
            let n = libc::write(wfd, b[off..].as_ptr() as *const libc::c_void, b.len() - off);
            if n <= 0 {
                break;
            }
            off += n as usize;
        }
        libc::_exit(0);
    }
}

fn stat_from_json(v: &Value) -> ShimStat {
    let g = |i: usize| v.get(i).and_then(|x| x.as_u64()).unwrap_or(0);
    ShimStat {
        rand_calls: g(0),
        clock_reads: g(1),
        events: g(2),
        eintr: g(3),
        short: g(4),
        errno: g(5),
        log_dropped: g(6),
        pid_reads: g(7),
        tty_reads: g(8),
        dirs_permuted: g(9),
        eof: 0,
    }
}

pub use crate::forkrun::fork_collect;

fn run_rcomp(env: &Env, target: &GrammarSrc, spec: &Spec, world: &World, l: &Layout) -> Outcome {
    use std::process::{Command, Stdio};
    let log_path = env.scratch.join("rcomp-shim.log");
    let _ = std::fs::remove_file(&log_path);
    let mut cfg = format!(
        "hash={},dir={},epoch={},pid={},tty={},root={},log={}",
        world.hash_seed,
        world.dir_seed,
        world.epoch,
        world.pid,
        world.tty as u8,
        l.case.to_string_lossy(),
        log_path.to_string_lossy()
    );
    if !world.faults.is_empty() {
        cfg.push_str(",plan=");
        cfg.push_str(&world.faults.iter().map(|f| format!("{}:{}:{}", f.event, f.kind, f.arg)).collect::<Vec<_>>().join(";"));
    }
    let mut cmd = Command::new(&env.rcomp);
    cmd.env_clear();
    for (k, v) in world_env(world, spec, l) {
        cmd.env(k, v);
    }
    cmd.env("LD_PRELOAD", &env.shim_so).env("VERIF_SHIM", cfg);
    cmd.current_dir(world_cwd(world, l));
    cmd.args(spec.cli_args(&l.out, &l.out_act));
    match world.vehicle {
        Vehicle::RcompDir => {
            cmd.arg(&l.proj);
        }
        _ => {
            cmd.arg(grammar_arg(world, l));
        }
    }
    let so_path = env.scratch.join("rcomp.stdout");
    let se_path = env.scratch.join("rcomp.stderr");
    let (so, se) = match (std::fs::File::create(&so_path), std::fs::File::create(&se_path)) {
        (Ok(a), Ok(b)) => (a, b),
        _ => {
            let mut out = empty_outcome();
            out.class = Class::Abort("harness: cannot create rcomp output files".into());
            return out;
        }
    };
    cmd.stdin(Stdio::null()).stdout(so).stderr(se);
    let mut out = empty_outcome();
    match cmd.spawn() {
        Err(e) => {
            out.class = Class::Abort(format!("spawn rcomp: {e}"));
            return out;
        }
        Ok(mut child) => {
            // wall-clock backstop only; nothing inside the run depends on it
            let mut waited_ms: i64 = 0;
            let status = loop {
                match child.try_wait() {
                    Ok(Some(st)) => break Some(st),
                    Ok(None) => {
                        if waited_ms >= env.timeout_ms.get() as i64 {
                            let _ = child.kill();
                            let _ = child.wait();
                            break None;
                        }
                        let step = if waited_ms < 200 { 2 } else { 20 };
                        std::thread::sleep(std::time::Duration::from_millis(step));
                        waited_ms += step as i64;
                    }
                    Err(_) => break None,
                }
            };
            let stdout = String::from_utf8_lossy(&std::fs::read(&so_path).unwrap_or_default()).to_string();
            let stderr = String::from_utf8_lossy(&std::fs::read(&se_path).unwrap_or_default()).to_string();
            out.console = format!("{stdout}\n--stderr--\n{stderr}");
            use std::os::unix::process::ExitStatusExt;
            match status {
                None => out.class = Class::Timeout,
                Some(status) => {
                    if let Some(sig) = status.signal() {
                        out.class = Class::Abort(format!("signal {sig}"));
                    } else if let Some(pos) = stderr.find("panicked at ") {
                        // "thread 'main' panicked at src/file.rs:LINE:COL:\nmsg"
                        let rest = &stderr[pos + "panicked at ".len()..];
                        let mut lines = rest.lines();
                        let loc = lines.next().unwrap_or("").trim_end_matches(':').to_string();
                        let msg = lines.next().unwrap_or("").to_string();
                        let mut it = loc.rsplitn(3, ':');
                        let _col = it.next();
                        let line = it.next().and_then(|x| x.parse().ok()).unwrap_or(0);
                        let file = it.next().unwrap_or(&loc).to_string();
                        out.class = Class::Panic(PanicInfo { file, line, msg, frame: String::new() });
                    } else if status.code() != Some(0) {
                        // clap usage errors exit with 2; anything else is not a
                        // diagnostic exit
                        out.class = Class::Abort(format!("exit status {:?}", status.code()));
                    }
                }
            }
        }
    }
    // shim log of the child
    if let Ok(text) = std::fs::read_to_string(&log_path) {
        for line in text.lines() {
            let mut it = line.split_whitespace();
            match it.next() {
                Some("stat") => {
                    for kv in it {
                        if let Some((k, v)) = kv.split_once('=') {
                            let v: u64 = v.parse().unwrap_or(0);
                            match k {
                                "rand" => out.stat.rand_calls = v,
                                "clock" => out.stat.clock_reads = v,
                                "events" => out.stat.events = v,
                                "eintr" => out.stat.eintr = v,
                                "short" => out.stat.short = v,
                                "errno" => out.stat.errno = v,
                                "pid" => out.stat.pid_reads = v,
                                "tty" => out.stat.tty_reads = v,
                                "dirs" => out.stat.dirs_permuted = v,
                                _ => {}
                            }
                        }
                    }
                }
                Some("ev") => {
                    let n: Vec<i64> = it.filter_map(|x| x.parse().ok()).collect();
                    if n.len() == 6 {
                        out.events.push(SimEvent { seq: n[0] as u32, op: n[1] as u8, fault: n[2] as u8, err: n[3] as i16, ret: n[4] as i32, path_hash: n[5] as u32 });
                    }
                }
                _ => {}
            }
        }
    }
    let _ = (target, spec);
    out
}

/// One world, one compile of the target.  Deterministic given its arguments.
pub fn run_world(env: &Env, target: &GrammarSrc, spec: &Spec, world: &World) -> Outcome {
    let existing = if spec.force { None } else { world.existing_actions.clone() };
    run_world_with(env, target, spec, world, existing.as_deref())
}

/// Like `run_world`, with a pre-existing actions file of exactly these bytes
/// at the place the compiler will look for it.
pub fn run_world_with(env: &Env, target: &GrammarSrc, spec: &Spec, world: &World, actions: Option<&[u8]>) -> Outcome {
    let prepared = prepare(env, target, spec, world).and_then(|l| {
        if let Some(a) = actions {
            let adir = if spec.actions_in_out() { l.out_act.join("src") } else { l.src.clone() };
            std::fs::create_dir_all(&adir)?;
            std::fs::write(adir.join(format!("{}_actions.rs", target.stem)), a)?;
        }
        apply_mtimes(world, spec, &l, target);
        Ok(l)
    });
    let l = match prepared {
        Ok(l) => l,
        Err(e) => {
            return Outcome {
                class: Class::Abort(format!("harness: prepare failed: {e}")),
                files: BTreeMap::new(),
                stat: ShimStat::default(),
                events: vec![],
                canary: 0,
                neighbours_failed: 0,
                console: String::new(),
            }
        }
    };
    let stale_parser = stale_bytes(world.stale, "parser");
    let mut out = match world.vehicle {
        Vehicle::Rcomp | Vehicle::RcompDir => run_rcomp(env, target, spec, world, &l),
        _ => match fork_collect(env.timeout_ms.get(), |wfd| { child_main(env, target, spec, world, &l, wfd) }) {
            Err(end) => Outcome {
                class: match end {
                    crate::forkrun::ChildEnd::Abort(m) => Class::Abort(m),
                    crate::forkrun::ChildEnd::Timeout => Class::Timeout,
                },
                files: BTreeMap::new(),
                stat: ShimStat::default(),
                events: vec![],
                canary: 0,
                neighbours_failed: 0,
                console: String::new(),
            },
            Ok(text) => match serde_json::from_str::<Value>(&text) {
                Err(_) => Outcome {
                    class: Class::Abort(format!("child result unparsable ({} bytes)", text.len())),
                    files: BTreeMap::new(),
                    stat: ShimStat::default(),
                    events: vec![],
                    canary: 0,
                    neighbours_failed: 0,
                    console: String::new(),
                },
                Ok(v) => Outcome {
                    class: v.get("class").and_then(class_from_json).unwrap_or(Class::Abort("no class".into())),
                    files: BTreeMap::new(),
                    stat: v.get("stat").map(stat_from_json).unwrap_or_default(),
                    events: v.get("events").map(events_from_json).unwrap_or_default(),
                    canary: v.get("canary").and_then(|c| c.as_str()).and_then(|c| c.parse().ok()).unwrap_or(0),
                    neighbours_failed: 0,
                    console: String::new(),
                },
            },
        },
    };
    let stale_all: Vec<Vec<u8>> = ["parser", "actions"].iter().filter_map(|w| stale_bytes(world.stale, w)).collect();
    collect(&l.case, &l.case, &stale_all, &mut out.files);
    // rcomp always exits 0; its outcome class is observable through the
    // parser file, which is written last and only on success.
    let parser_name = format!("{}.rs", target.stem);
    if matches!(world.vehicle, Vehicle::Rcomp | Vehicle::RcompDir) && out.class == Class::Ok {
        let fresh = out.file(&parser_name).is_some();
        let _ = &stale_parser;
        if !fresh {
            out.class = Class::Err(format!("(rcomp) no parser written; console: {}", out.console.chars().take(400).collect::<String>()));
        }
    }
    if matches!(world.vehicle, Vehicle::ProcessDir | Vehicle::RcompDir) {
        for (g, _) in &world.neighbours {
            if !out.files.contains_key(&format!("{}.rs", g.stem)) {
                out.neighbours_failed += 1;
            }
        }
    }
    let _ = std::fs::remove_dir_all(&l.case);
    if out.class == Class::Timeout {
        // Hangs are established after two kills; do not spend a full
        // backstop on each of the (possibly thousands of) cases that follow.
        env.timeouts_seen.set(env.timeouts_seen.get() + 1);
        if env.timeouts_seen.get() >= 2 {
            env.timeout_ms.set(env.timeout_ms.get().min(15_000));
        }
    }
    out
}

/// Seeded environment noise that must not influence the output.
pub fn env_noise(rng: &mut Rng) -> Vec<(String, String)> {
    let mut e: Vec<(String, String)> = vec![];
    if rng.chance(1, 3) {
        e.push(("RUSTEMO_TRACE".into(), "1".into()));
    }
    if rng.chance(1, 3) {
        e.push(("NO_COLOR".into(), "1".into()));
    }
    if rng.chance(1, 3) {
        e.push(("CLICOLOR_FORCE".into(), "1".into()));
    }
    if rng.chance(1, 2) {
        e.push(("TERM".into(), rng.pick(&["xterm-256color", "dumb", "vt100"]).to_string()));
    }
    if rng.chance(1, 2) {
        e.push(("LANG".into(), rng.pick(&["C", "en_US.UTF-8", "sr_RS.UTF-8", "tr_TR.UTF-8"]).to_string()));
    }
    if rng.chance(1, 3) {
        e.push(("HOME".into(), "/nonexistent".into()));
    }
    if rng.chance(1, 4) {
        e.push(("RUST_BACKTRACE".into(), "1".into()));
    }
    if rng.chance(1, 4) {
        e.push(("SOURCE_DATE_EPOCH".into(), "1".into()));
    }
    if rng.chance(1, 4) {
        e.push(("USER".into(), rng.pick(&["root", "builder", "igor"]).to_string()));
    }
    e
}

pub fn path_bytes(p: &Path) -> Vec<u8> {
    p.as_os_str().as_bytes().to_vec()
}
