//! C12 (restricted) -- error localisation under *injected* stream faults:
//! the injector knows where the fault is (DESIGN.md 4/C12).
//!
//!   pristine  a corpus sentence parses Ok
//!   W         whitespace inserted inside an existing gap: still Ok
//!   T         stream torn at a token end: Ok, or Err at end of input
//!   G         unrecognisable character inserted at a token start: Err there
//!
//! plus line/column consistent with the reported byte offset.  T and G rely
//! on the prefix being lexed as in the pristine run; that is observed through
//! the recording lexer proxy, not assumed (soundness guard).

use crate::c15::Runner;
use crate::case::*;
use crate::corpus::{self, Entry};
use crate::forkrun::fork_collect;
use crate::prng::{fnv64, sub_seed, Rng};
use crate::report::{self, Paths, Report, Violation};
use crate::Args;
use serde_json::{json, Value};
use std::collections::{BTreeMap, BTreeSet};

#[derive(Clone, Debug, PartialEq, Eq)]
pub enum Expect {
    /// a sentence: must parse Ok
    Ok,
    /// a proper prefix of a sentence: Ok, or Err at end of input
    OkOrErrAtEnd,
    /// garbage at this offset: Err exactly there
    ErrAt(usize),
    /// the stream is a sentence up to this offset and was mutated from there
    /// on (a token replaced by another one, lost, written twice): the result
    /// may be a sentence again; if it is not, the error must not be reported
    /// *before* the offset
    NotBefore(usize),
}

#[derive(Clone, Debug)]
pub struct Case {
    pub parser: String,
    pub layout: String,
    pub input: String,
    pub kind: &'static str,
    pub expect: Expect,
    /// offset before which lexing must agree with `reference`
    pub fault_pos: usize,
    /// the sentence whose lexing is the reference for the soundness guard
    pub reference: String,
    pub damage: String,
}

fn kind_static(s: &str) -> &'static str {
    match s {
        "pristine" => "pristine",
        "W" => "W",
        "T" => "T",
        "G" => "G",
        "WT" => "WT",
        "WG" => "WG",
        "M" => "M",
        "WM" => "WM",
        _ => "?",
    }
}

impl Case {
    pub fn to_json(&self) -> Value {
        json!({"kind": "c12", "variant": self.kind, "parser": self.parser, "layout": self.layout, "input": self.input,
            "expect": match &self.expect { Expect::Ok => json!("ok"), Expect::OkOrErrAtEnd => json!("ok-or-err-at-end"), Expect::ErrAt(p) => json!({"err_at": p}), Expect::NotBefore(p) => json!({"not_before": p}) },
            "fault_pos": self.fault_pos, "reference": self.reference, "damage": self.damage})
    }
    pub fn from_json(v: &Value) -> Option<Case> {
        Some(Case {
            parser: v["parser"].as_str()?.into(),
            layout: v["layout"].as_str()?.into(),
            input: v["input"].as_str()?.into(),
            kind: kind_static(v["variant"].as_str()?),
            expect: match &v["expect"] {
                Value::String(s) if s == "ok" => Expect::Ok,
                Value::String(s) if s == "ok-or-err-at-end" => Expect::OkOrErrAtEnd,
                o if o.get("not_before").is_some() => Expect::NotBefore(o.get("not_before")?.as_u64()? as usize),
                o => Expect::ErrAt(o.get("err_at")?.as_u64()? as usize),
            },
            fault_pos: v["fault_pos"].as_u64()? as usize,
            reference: v["reference"].as_str()?.into(),
            damage: v["damage"].as_str().unwrap_or("").into(),
        })
    }
}

#[derive(Default)]
pub struct Stats {
    pub cases: u64,
    pub by_kind: BTreeMap<String, u64>,
    pub validated: u64,
    pub inconclusive: BTreeMap<String, u64>,
    pub ok_on_prefix: u64,
    pub c15_business: u64,
    pub lr: u64,
    pub glr: u64,
    pub multiline: u64,
    pub non_ascii: u64,
    pub positions_checked: u64,
    pub g_unavailable: u64,
    pub seam_events: u64,
    pub seam_events_max: u64,
    pub distinct: BTreeSet<u64>,
    pub nontrivial: BTreeSet<u64>,
    pub parsers: BTreeSet<String>,
    pub samples: Vec<Value>,
    pub digests: Vec<String>,
}

impl Stats {
    pub fn to_json(&self) -> Value {
        json!({"cases": self.cases, "by_kind": self.by_kind, "validated": self.validated, "inconclusive": self.inconclusive,
            "ok_on_prefix": self.ok_on_prefix, "c15_business": self.c15_business, "lr": self.lr, "glr": self.glr,
            "multiline": self.multiline, "non_ascii": self.non_ascii, "positions_checked": self.positions_checked,
            "g_unavailable": self.g_unavailable, "seam_events": self.seam_events, "seam_events_max": [self.seam_events_max],
            "distinct": self.distinct.iter().collect::<Vec<_>>(), "nontrivial": self.nontrivial.iter().collect::<Vec<_>>(),
            "parsers": self.parsers.iter().collect::<Vec<_>>(), "samples": self.samples})
    }
}

fn bump(m: &mut BTreeMap<String, u64>, k: &str) {
    *m.entry(k.to_string()).or_insert(0) += 1;
}

fn run_text(r: &Runner, parser: &str, layout: &str, input: &str) -> Option<RunOut> {
    let c = crate::c15::Case {
        parser: parser.into(),
        layout: layout.into(),
        input: input.as_bytes().to_vec(),
        faults: vec![],
        ignore_expected: false,
        via_file: false,
        io_faults: vec![],
        seq_prefix: vec![],
        damage: String::new(),
        fclass: "c12",
    };
    r.run(&c, true)
}

pub enum Verdict {
    Holds,
    Inconclusive(&'static str),
    /// panic / budget: C15's business, reported there
    C15,
    Violation { class: String, what: String },
}

/// line/column the harness computes from the final text
fn line_col(input: &str, pos: usize) -> (usize, usize) {
    let before = &input.as_bytes()[..pos.min(input.len())];
    let line = 1 + before.iter().filter(|b| **b == b'\n').count();
    let col = match before.iter().rposition(|b| *b == b'\n') {
        Some(i) => pos - (i + 1),
        None => pos,
    };
    (line, col)
}

/// Soundness guard: every lexer call of the faulted run that starts before
/// the fault must return what the reference run's call at the same
/// (state, position) returned.
fn prefix_lexed_identically(reference: &RunOut, faulted: &RunOut, fault_pos: usize) -> bool {
    let mut refmap: BTreeMap<(u32, u32), &Vec<TokRec>> = BTreeMap::new();
    for c in &reference.calls {
        refmap.entry((c.state, c.pos)).or_insert(&c.toks);
    }
    for c in &faulted.calls {
        if (c.pos_after as usize) < fault_pos {
            match refmap.get(&(c.state, c.pos)) {
                Some(t) => {
                    if **t != c.toks {
                        return false;
                    }
                }
                None => return false,
            }
        }
    }
    true
}

pub fn check(r: &Runner, case: &Case, st: &mut Stats) -> Verdict {
    let o = match run_text(r, &case.parser, &case.layout, &case.input) {
        Some(o) => o,
        None => return Verdict::Inconclusive("unknown-parser"),
    };
    st.seam_events += o.events;
    st.seam_events_max = st.seam_events_max.max(o.events);
    if matches!(o.out, Out::Panic(_) | Out::Budget) {
        return Verdict::C15;
    }
    // shape of every reported error
    if let Out::ParseErr { pos, line, column, has_span, msg, .. } = &o.out {
        st.positions_checked += 1;
        if !has_span {
            return Verdict::Violation { class: "error-without-position".into(), what: format!("syntax error without a span: {:?}", msg.chars().take(80).collect::<String>()) };
        }
        if msg.trim().is_empty() {
            return Verdict::Violation { class: "error-without-message".into(), what: "syntax error with an empty message".into() };
        }
        if *pos > case.input.len() {
            return Verdict::Violation { class: "position-outside-input".into(), what: format!("reported offset {pos} is outside the input of {} bytes", case.input.len()) };
        }
        let (l, c) = line_col(&case.input, *pos);
        if *line != Some(l) || *column != Some(c) {
            return Verdict::Violation { class: "line-column-inconsistent".into(), what: format!("offset {pos} is line {l} column {c}, reported {:?}:{:?}", line, column) };
        }
    }
    match &case.expect {
        Expect::Ok => match &o.out {
            Out::Ok { .. } => {
                if case.kind == "W" {
                    // leaves must have the same kinds and texts as the reference
                    if let (Some(reference), Out::Ok { leaves, .. }) = (run_text(r, &case.parser, &case.layout, &case.reference), &o.out) {
                        if let Out::Ok { leaves: rl, .. } = &reference.out {
                            let same = rl.len() == leaves.len()
                                && rl.iter().zip(leaves.iter()).all(|(a, b)| a.kind == b.kind && case.reference.as_bytes().get(a.start as usize..a.end as usize) == case.input.as_bytes().get(b.start as usize..b.end as usize));
                            if !same {
                                return Verdict::Inconclusive("w-leaves-differ");
                            }
                        }
                    }
                }
                Verdict::Holds
            }
            Out::ParseErr { pos, msg, .. } => Verdict::Violation {
                class: if case.kind == "pristine" { "sentence-rejected".into() } else { "whitespace-variation-rejected".into() },
                what: format!("a sentence was rejected: error at offset {pos}: {}", msg.chars().take(80).collect::<String>()),
            },
            _ => Verdict::Inconclusive("not-delivered"),
        },
        Expect::OkOrErrAtEnd | Expect::ErrAt(_) | Expect::NotBefore(_) => {
            let reference = match run_text(r, &case.parser, &case.layout, &case.reference) {
                Some(x) if matches!(x.out, Out::Ok { .. }) => x,
                _ => return Verdict::Inconclusive("reference-not-ok"),
            };
            if !prefix_lexed_identically(&reference, &o, case.fault_pos) {
                return Verdict::Inconclusive("prefix-lexed-differently");
            }
            match (&case.expect, &o.out) {
                (Expect::OkOrErrAtEnd, Out::Ok { .. }) => {
                    st.ok_on_prefix += 1;
                    Verdict::Holds
                }
                (Expect::OkOrErrAtEnd, Out::ParseErr { pos, .. }) => {
                    if *pos == case.input.len() {
                        Verdict::Holds
                    } else {
                        Verdict::Violation { class: "wrong-error-position:T".into(), what: format!("the input is a proper prefix of a sentence ({} bytes) but the error is reported at offset {pos}, not at the end of input", case.input.len()) }
                    }
                }
                (Expect::NotBefore(_), Out::Ok { .. }) => Verdict::Holds,
                (Expect::NotBefore(f), Out::ParseErr { pos, .. }) => {
                    if pos >= f {
                        Verdict::Holds
                    } else {
                        Verdict::Violation { class: "error-before-first-offending-token:M".into(), what: format!("the stream is a sentence up to offset {f} (every token before it lexed as in the sentence) and was mutated from there on, but the error is reported at offset {pos}, before the first token that can be offending") }
                    }
                }
                (Expect::ErrAt(f), out) => {
                    // the garbage must be unrecognisable where it stands:
                    // every lexer call that looked at that offset returned nothing
                    let looked: Vec<&CallRec> = o.calls.iter().filter(|c| c.pos_after as usize == *f).collect();
                    if looked.iter().any(|c| !c.toks.is_empty()) {
                        return Verdict::Inconclusive("garbage-recognised");
                    }
                    match out {
                        Out::Ok { .. } => Verdict::Violation { class: "garbage-accepted".into(), what: format!("an unrecognisable character at offset {f} did not produce an error") },
                        Out::ParseErr { pos, .. } => {
                            if pos == f {
                                Verdict::Holds
                            } else {
                                Verdict::Violation { class: "wrong-error-position:G".into(), what: format!("unrecognisable character inserted at offset {f}, every token before it lexed as in the sentence, but the error is reported at offset {pos}") }
                            }
                        }
                        _ => Verdict::Inconclusive("not-delivered"),
                    }
                }
                _ => Verdict::Inconclusive("not-delivered"),
            }
        }
    }
}

const GARBAGE: &[&str] = &["\u{1}", "\u{fffd}", "§", "¤", "\u{7}", "\u{2400}"];
const WS_ASCII: &[&str] = &[" ", "\t", "\n", "\r\n", "  \n\n  ", " \t \n"];
const WS_UNICODE: &[&str] = &["\u{a0}", "\u{2003}", "\u{2028}", "\u{3000} \n"];

/// Gaps of the pristine run: (start, end) byte ranges between tokens, before
/// the first and after the last.
fn gaps(leaves: &[TokRec], len: usize) -> Vec<(usize, usize)> {
    let mut v = vec![];
    let mut prev = 0usize;
    for l in leaves {
        if (l.start as usize) > prev {
            v.push((prev, l.start as usize));
        }
        prev = prev.max(l.end as usize);
    }
    if len > prev {
        v.push((prev, len));
    }
    v
}

/// Where whitespace may be inserted inside the gap a..z without splitting
/// anything.  Without a Layout rule the gap is whitespace only: after its first
/// character.  With a Layout rule the gap may contain comments: only next to a
/// whitespace character at the very start or the very end of the gap, which
/// is outside any comment.
fn w_insertion_point(s: &str, a: usize, z: usize, has_layout: bool) -> Option<usize> {
    if !s.is_char_boundary(a) || !s.is_char_boundary(z) || a >= z {
        return None;
    }
    let gap = &s[a..z];
    if !has_layout {
        if !gap.chars().all(|c| c.is_whitespace()) {
            return None;
        }
        return Some(char_boundary_after_first(s, a));
    }
    let first = gap.chars().next()?;
    if first.is_ascii_whitespace() {
        return Some(a + first.len_utf8());
    }
    let last = gap.chars().last()?;
    if last.is_ascii_whitespace() {
        return Some(z);
    }
    None
}

fn char_boundary_after_first(s: &str, a: usize) -> usize {
    a + s[a..].chars().next().map(|c| c.len_utf8()).unwrap_or(0)
}

pub fn cases_for(p: &dyn ParserCase, e: &Entry, sentence: &str, base: &RunOut, thorough: bool, seed: u64, f: &mut dyn FnMut(Case)) {
    let leaves = match &base.out {
        Out::Ok { leaves, .. } => leaves.clone(),
        _ => return,
    };
    let mk = |input: String, kind: &'static str, expect: Expect, fault_pos: usize, reference: &str, damage: String| Case {
        parser: p.id().into(),
        layout: p.layout().into(),
        input,
        kind,
        expect,
        fault_pos,
        reference: reference.to_string(),
        damage,
    };
    let stride = (leaves.len() / if thorough { 400 } else { 60 }).max(1);
    // T: torn at every token end (and after the complete following gap)
    if e.c12.contains('T') {
        for (i, l) in leaves.iter().enumerate().step_by(stride) {
            let end = l.end as usize;
            if end < sentence.len() && sentence.is_char_boundary(end) {
                f(mk(sentence[..end].to_string(), "T", Expect::OkOrErrAtEnd, end, sentence, format!("stream torn after token {i} (offset {end})")));
            }
            if let Some(n) = leaves.get(i + 1) {
                let s = n.start as usize;
                if s > end && s < sentence.len() && sentence.is_char_boundary(s) {
                    f(mk(sentence[..s].to_string(), "T", Expect::OkOrErrAtEnd, s, sentence, format!("stream torn after token {i} and the gap that follows (offset {s})")));
                }
            }
        }
    }
    // T inside a gap: the stream ends within whitespace or within a comment
    // (possibly leaving it unterminated).  Every token before the cut is
    // complete, so the input is a proper prefix of the sentence.
    if e.c12.contains('T') {
        for (i, l) in leaves.iter().enumerate().step_by(stride) {
            if let Some(n) = leaves.get(i + 1) {
                let (a, z) = (l.end as usize, n.start as usize);
                if z > a + 1 {
                    let inner: Vec<usize> = (a + 1..z).filter(|c| sentence.is_char_boundary(*c)).collect();
                    let step = (inner.len() / if thorough { 16 } else { 6 }).max(1);
                    for c in inner.into_iter().step_by(step) {
                        f(mk(sentence[..c].to_string(), "T", Expect::OkOrErrAtEnd, c, sentence, format!("stream torn inside the gap after token {i} (offset {c})")));
                    }
                }
            }
        }
    }
    // G: garbage at every token start
    if e.c12.contains('G') {
        for (i, l) in leaves.iter().enumerate().step_by(stride) {
            let s = l.start as usize;
            if !sentence.is_char_boundary(s) {
                continue;
            }
            for g in GARBAGE.iter().take(if thorough { GARBAGE.len() } else { 3 }) {
                let z = format!("{}{}{}", &sentence[..s], g, &sentence[s..]);
                f(mk(z, "G", Expect::ErrAt(s), s, sentence, format!("U+{:04X} inserted at the start of token {i} (offset {s})", g.chars().next().unwrap() as u32)));
            }
        }
        // and at the very end
        let s = sentence.len();
        for g in GARBAGE.iter().take(2) {
            let z = format!("{sentence}{g}");
            f(mk(z, "G", Expect::ErrAt(s), s, sentence, format!("U+{:04X} appended at the end (offset {s})", g.chars().next().unwrap() as u32)));
        }
    }
    // M: a misdirected write -- a token is overwritten by the text of a token of
    // another kind, lost, or written twice.  The result may be a sentence; if
    // it is not, the first offending token cannot lie before the mutation.
    if e.c12.contains('G') {
        let mut rng = Rng::new(sub_seed(seed, 1212, fnv64(sentence.as_bytes()) ^ fnv64(p.id().as_bytes())));
        for (i, l) in leaves.iter().enumerate().step_by(stride) {
            let (s, en) = (l.start as usize, l.end as usize);
            if en <= s || en > sentence.len() || !sentence.is_char_boundary(s) || !sentence.is_char_boundary(en) {
                continue;
            }
            let next_start = leaves.get(i + 1).map(|n| n.start as usize).unwrap_or(sentence.len());
            if next_start < en || !sentence.is_char_boundary(next_start) {
                continue;
            }
            let mut others: Vec<&TokRec> = vec![];
            for o in &leaves {
                let (os, oe) = (o.start as usize, o.end as usize);
                if o.kind != l.kind && oe > os && oe <= sentence.len() && sentence.is_char_boundary(os) && sentence.is_char_boundary(oe) && sentence[os..oe] != sentence[s..en] && !others.iter().any(|x| x.kind == o.kind) {
                    others.push(o);
                }
            }
            if !others.is_empty() {
                let rot = rng.usize(others.len());
                others.rotate_left(rot);
            }
            let mut texts: Vec<String> = others.iter().take(if thorough { 6 } else { 3 }).map(|o| sentence[o.start as usize..o.end as usize].to_string()).collect();
            // ... and by words of the entry's other inputs (token kinds that do
            // not occur in this sentence at all)
            let mut words: Vec<String> = vec![];
            for other in &e.sentences {
                if let Ok(t) = std::str::from_utf8(&other.bytes) {
                    for w in t.split_whitespace() {
                        if w.len() <= 24 && w != &sentence[s..en] && !texts.iter().any(|x| x == w) && !words.iter().any(|x| x == w) && words.len() < 64 {
                            words.push(w.to_string());
                        }
                    }
                }
            }
            if !words.is_empty() {
                let rot = rng.usize(words.len());
                words.rotate_left(rot);
                texts.extend(words.into_iter().take(if thorough { 6 } else { 3 }));
            }
            for text in &texts {
                let z = format!("{}{}{}", &sentence[..s], text, &sentence[en..]);
                f(mk(z, "M", Expect::NotBefore(s), s, sentence, format!("token {i} (offset {s}) overwritten by the text of another token ({:?})", text.chars().take(20).collect::<String>())));
            }
            if next_start < sentence.len() {
                let z = format!("{}{}", &sentence[..s], &sentence[next_start..]);
                f(mk(z, "M", Expect::NotBefore(s), s, sentence, format!("token {i} (offset {s}) and the gap that follows lost")));
            }
            let z = format!("{}{}{}", &sentence[..next_start], &sentence[s..next_start], &sentence[next_start..]);
            f(mk(z, "M", Expect::NotBefore(next_start), next_start, sentence, format!("token {i} and the gap that follows written twice (second copy at offset {next_start})")));
        }
    }
    // W: benign whitespace variation inside existing gaps
    if e.c12.contains('W') && e.w_eligible {
        let gs = gaps(&leaves, sentence.len());
        let gstride = (gs.len() / if thorough { 200 } else { 30 }).max(1);
        let mut variants: Vec<&str> = WS_ASCII.to_vec();
        if !e.w_ascii_only && !p.has_layout() {
            variants.extend_from_slice(WS_UNICODE);
        }
        let mut wcases: Vec<String> = vec![];
        for (a, z) in gs.iter().step_by(gstride) {
            let at = match w_insertion_point(sentence, *a, *z, p.has_layout()) {
                Some(at) => at,
                None => continue,
            };
            for ws in &variants {
                let v = format!("{}{}{}", &sentence[..at], ws, &sentence[at..]);
                wcases.push(v.clone());
                f(mk(v, "W", Expect::Ok, 0, sentence, format!("{:?} inserted inside the gap at offset {at}", ws)));
            }
        }
        // every whitespace variant inserted into *all* gaps at once: a sentence
        // again, and the reference for torn / garbage faults on top of it (so
        // that error positions are also computed behind multi-byte and
        // multi-line whitespace)
        for ws in &variants {
            let mut v = sentence.to_string();
            let mut gs2 = gs.clone();
            gs2.reverse();
            let mut n = 0;
            for (a, z) in gs2 {
                if let Some(at) = w_insertion_point(&v, a, z, p.has_layout()) {
                    v.insert_str(at, ws);
                    n += 1;
                }
            }
            if n > 0 {
                f(mk(v.clone(), "W", Expect::Ok, 0, sentence, format!("{:?} inserted inside every gap", ws)));
                f(mk(v, "WREF", Expect::Ok, 0, sentence, format!("{:?} inserted inside every gap (reference for WT/WG)", ws)));
            }
        }
        // thorough: T and G on top of seeded stacks of W variants
        if thorough && !wcases.is_empty() {
            let mut rng = Rng::new(sub_seed(seed, 12, fnv64(sentence.as_bytes()) ^ fnv64(p.id().as_bytes())));
            for _ in 0..40 {
                let mut v = sentence.to_string();
                // insert whitespace into several gaps, from the back so offsets stay valid
                let mut gs2 = gs.clone();
                gs2.reverse();
                for (a, z) in gs2 {
                    if rng.chance(1, 2) {
                        if let Some(at) = w_insertion_point(&v, a, z, p.has_layout()) {
                            let ws = rng.pick(&variants);
                            v.insert_str(at, ws);
                        }
                    }
                }
                f(mk(v.clone(), "W", Expect::Ok, 0, sentence, "seeded stack of whitespace insertions".into()));
                // T/G relative to the W-variant itself as reference
                if let Some(wbase_leaves) = None::<Vec<TokRec>> {
                    let _ = wbase_leaves;
                }
                f(mk(v, "WREF", Expect::Ok, 0, sentence, "seeded stack of whitespace insertions (reference for WT/WG)".into()));
            }
        }
    }
}

fn record(st: &mut Stats, p: &dyn ParserCase, case: &Case, v: &Verdict, viol: &mut Vec<Value>, idx: u64) {
    st.cases += 1;
    bump(&mut st.by_kind, case.kind);
    if p.glr() {
        st.glr += 1;
    } else {
        st.lr += 1;
    }
    if case.input.contains('\n') {
        st.multiline += 1;
    }
    if !case.input.is_ascii() {
        st.non_ascii += 1;
    }
    st.parsers.insert(format!("{}/{}", case.parser, case.layout));
    let h = fnv64(format!("{}|{}|{}|{}|{:?}", case.parser, case.layout, case.kind, case.input, case.expect).as_bytes());
    st.distinct.insert(h);
    if report::digest_on() {
        st.digests.push(format!("{idx}|{:016x}|{}", h, match v { Verdict::Holds => "holds".to_string(), Verdict::Inconclusive(w) => format!("inconclusive:{w}"), Verdict::C15 => "c15".into(), Verdict::Violation { class, .. } => format!("violation:{class}") }));
    }
    match v {
        Verdict::Holds => {
            st.validated += 1;
            if case.kind != "pristine" {
                st.nontrivial.insert(h);
            }
        }
        Verdict::Inconclusive(why) => bump(&mut st.inconclusive, why),
        Verdict::C15 => st.c15_business += 1,
        Verdict::Violation { class, what } => {
            // identity: parser, sentence, fault kind, offset
            let key = format!("{class}|{}|{}", case.parser, fnv64(format!("{}|{}", case.reference, case.fault_pos).as_bytes()) % 100_000);
            if !viol.iter().any(|x| x["key"].as_str() == Some(&key)) && viol.len() < 80 {
                viol.push(Violation { property: "C12".into(), class: class.clone(), key, what: format!("{what} [{} {}; {}; input {:?}]", case.parser, case.layout, case.damage, case.input.chars().take(60).collect::<String>()), case: case.to_json(), index: idx }.to_json());
            }
        }
    }
    if st.samples.len() < 5 && st.cases % 211 == 5 {
        st.samples.push(json!({"parser": case.parser, "layout": case.layout, "variant": case.kind, "damage": case.damage, "input": case.input.chars().take(70).collect::<String>(),
            "verdict": match v { Verdict::Holds => "holds".to_string(), Verdict::Inconclusive(w) => format!("inconclusive: {w}"), Verdict::C15 => "c15".into(), Verdict::Violation { class, .. } => format!("violation: {class}") }}));
    }
}

fn run_item(r: &Runner, entries: &[Entry], item: &(usize, usize), thorough: bool, seed: u64, idx: u64) -> Value {
    let p = &*r.registry[item.0];
    let e = entries.iter().find(|e| e.id == p.id()).unwrap();
    let s = &e.sentences[item.1];
    let mut st = Stats::default();
    let mut viol = vec![];
    let sentence = match std::str::from_utf8(&s.bytes) {
        Ok(t) => t.to_string(),
        Err(_) => return json!({"stats": st.to_json(), "violations": viol}),
    };
    let pristine = Case { parser: p.id().into(), layout: p.layout().into(), input: sentence.clone(), kind: "pristine", expect: Expect::Ok, fault_pos: 0, reference: sentence.clone(), damage: "none (a corpus sentence)".into() };
    let v = check(r, &pristine, &mut st);
    record(&mut st, p, &pristine, &v, &mut viol, idx);
    if !matches!(v, Verdict::Holds) {
        return json!({"stats": st.to_json(), "violations": viol});
    }
    let base = match run_text(r, p.id(), p.layout(), &sentence) {
        Some(b) => b,
        None => return json!({"stats": st.to_json(), "violations": viol}),
    };
    let mut wrefs: Vec<String> = vec![];
    cases_for(p, e, &sentence, &base, thorough, seed, &mut |c| {
        if c.kind == "WREF" {
            wrefs.push(c.input);
            return;
        }
        let v = check(r, &c, &mut st);
        record(&mut st, p, &c, &v, &mut viol, idx);
    });
    // WT / WG: the W variant is itself a sentence (if it parses Ok) and serves
    // as the reference for a torn / garbage fault on top of it
    for w in wrefs {
        let wb = match run_text(r, p.id(), p.layout(), &w) {
            Some(b) if matches!(b.out, Out::Ok { .. }) => b,
            _ => continue,
        };
        let mut e2 = e.clone();
        e2.c12 = e.c12.replace('W', "");
        cases_for(p, &e2, &w, &wb, false, seed, &mut |mut c| {
            c.kind = match c.kind {
                "T" => "WT",
                "M" => "WM",
                _ => "WG",
            };
            let v = check(r, &c, &mut st);
            record(&mut st, p, &c, &v, &mut viol, idx);
        });
    }
    let digests = std::mem::take(&mut st.digests);
    json!({"stats": st.to_json(), "violations": viol, "digests": digests})
}

fn items(r: &Runner, entries: &[Entry]) -> Vec<(usize, usize)> {
    let mut v = vec![];
    for (pi, p) in r.registry.iter().enumerate() {
        if p.partial() || p.bytes_input() || p.cyclic() {
            continue;
        }
        if let Some(e) = entries.iter().find(|e| e.id == p.id()) {
            for (si, s) in e.sentences.iter().enumerate() {
                if s.valid {
                    v.push((pi, si));
                }
            }
        }
    }
    v
}

/// Start-up guard of the W variant: a W-eligible entry without a Layout rule
/// must not have a recognizer that matches a string beginning with whitespace.
fn w_guard(r: &Runner, entries: &[Entry]) -> Result<(), String> {
    for p in r.registry.iter() {
        if let Some(e) = entries.iter().find(|e| e.id == p.id()) {
            if e.w_eligible && e.c12.contains('W') && !p.has_layout() {
                for ws in [" x", "\tx", "\nx", "\r\nx", "\u{a0}x", "\u{2003}x", "\u{2028}x", "\u{3000}x", " ", "\n"] {
                    if p.any_recognizer_matches(ws) == Some(true) {
                        return Err(format!("corpus entry {} is marked W-eligible but one of its recognizers matches text that begins with whitespace ({ws:?})", p.id()));
                    }
                }
            }
        }
    }
    Ok(())
}

fn work(args: &Args, entries: &[Entry], w: usize, nw: usize) -> Value {
    let r = Runner::new(args, w + 100);
    let thorough = args.tier == "thorough";
    let all = items(&r, entries);
    let mut merged = Value::Null;
    // Wall-clock backstop per forked item (the deterministic hang detector is
    // the seam-event budget; this only catches loops that touch no seam).
    // Items take seconds; after the first item that had to be killed, the
    // backstop drops so that a change that makes many parses hang is still
    // reported within minutes.
    let backstop = std::cell::Cell::new(if thorough { 1_800_000 } else { 900_000 });
    let after_first_kill = if thorough { 300_000 } else { 90_000 };
    for (idx, item) in all.iter().enumerate() {
        if idx % nw != w {
            continue;
        }
        let res = fork_collect(backstop.get(), |wfd| {
            let v = run_item(&r, entries, item, thorough, args.seed, idx as u64);
            let s = v.to_string();
            let b = s.as_bytes();
            let mut off = 0usize;
            unsafe {
                while off < b.len() {
                    let n = libc::write(wfd, b[off..].as_ptr() as *const libc::c_void, b.len() - off);
                    if n <= 0 {
                        break;
                    }
                    off += n as usize;
                }
                libc::_exit(0);
            }
        });
        match res {
            Ok(text) => match serde_json::from_str::<Value>(&text) {
                Ok(v) => report::merge(&mut merged, &v),
                Err(_) => report::merge(&mut merged, &json!({"harness_errors": [format!("item {idx}: unparsable child result")]})),
            },
            // a dying or hanging parse is C15's finding, not C12's
            Err(end) => {
                if matches!(end, crate::forkrun::ChildEnd::Timeout) {
                    backstop.set(after_first_kill);
                }
                report::merge(&mut merged, &json!({"stats": {"c15_business": 1}}))
            }
        }
    }
    // parser reuse: a sentence must parse Ok whatever the same parser value
    // parsed (and rejected) before
    let n_items = all.len();
    for pi in 0..r.registry.len() {
        let idx = n_items + pi;
        if idx % nw != w {
            continue;
        }
        let p = &*r.registry[pi];
        if p.partial() || p.bytes_input() || p.cyclic() {
            continue;
        }
        let res = fork_collect(backstop.get().min(900_000), |wfd| {
            let v = run_reuse_item(&r, entries, pi, thorough, args.seed, idx as u64);
            let s = v.to_string();
            let b = s.as_bytes();
            let mut off = 0usize;
            unsafe {
                while off < b.len() {
                    let n = libc::write(wfd, b[off..].as_ptr() as *const libc::c_void, b.len() - off);
                    if n <= 0 {
                        break;
                    }
                    off += n as usize;
                }
                libc::_exit(0);
            }
        });
        match res {
            Ok(text) => {
                if let Ok(v) = serde_json::from_str::<Value>(&text) {
                    report::merge(&mut merged, &v);
                }
            }
            Err(_) => report::merge(&mut merged, &json!({"stats": {"c15_business": 1}})),
        }
    }
    r.cleanup();
    merged
}

fn run_reuse_item(r: &Runner, entries: &[Entry], pi: usize, thorough: bool, seed: u64, idx: u64) -> Value {
    let p = &*r.registry[pi];
    let mut st = Stats::default();
    let mut viol: Vec<Value> = vec![];
    let e = match entries.iter().find(|e| e.id == p.id()) {
        Some(e) if e.sentences.iter().any(|s| s.valid) => e,
        _ => return json!({"stats": st.to_json(), "violations": viol}),
    };
    let pool = crate::c15::reuse_pool(e);
    let valid: Vec<usize> = pool
        .iter()
        .enumerate()
        .filter(|(_, x)| x.1.starts_with("sentence ") && !x.1.contains(" torn") && !x.1.contains(" with ") && !x.1.contains(" twice") && !x.1.contains(" padded"))
        .filter(|(_, x)| x.1.trim_start_matches("sentence ").parse::<usize>().ok().map(|i| e.sentences[i].valid).unwrap_or(false))
        .map(|(k, _)| k)
        .collect();
    if valid.is_empty() {
        return json!({"stats": st.to_json(), "violations": viol});
    }
    let mut rng = Rng::new(sub_seed(seed, 1212, fnv64(p.id().as_bytes()) ^ fnv64(p.layout().as_bytes())));
    for _ in 0..if thorough { 100 } else { 10 } {
        let len = rng.range(1, 4);
        let mut seq: Vec<usize> = (0..len).map(|_| rng.usize(pool.len())).collect();
        seq.push(*rng.pick(&valid));
        let inputs: Vec<Vec<u8>> = seq.iter().map(|k| pool[*k].0.clone()).collect();
        let outs = p.run_seq(&inputs, &RunCfg::default());
        for (k, o) in outs.iter().enumerate() {
            if !valid.contains(&seq[k]) {
                continue;
            }
            st.cases += 1;
            bump(&mut st.by_kind, "reuse");
            let text = String::from_utf8_lossy(&inputs[k]).to_string();
            let h = fnv64(format!("{}|{}|reuse|{:?}", p.id(), p.layout(), &inputs[..=k]).as_bytes());
            st.distinct.insert(h);
            match &o.out {
                Out::Ok { .. } => {
                    st.validated += 1;
                    st.nontrivial.insert(h);
                }
                Out::ParseErr { pos, msg, .. } => {
                    let key = format!("sentence-rejected-after-reuse|{}", p.id());
                    if !viol.iter().any(|x| x["key"].as_str() == Some(&key)) {
                        let case = json!({"kind": "c12-reuse", "parser": p.id(), "layout": p.layout(), "inputs": inputs[..=k].iter().map(|b| String::from_utf8_lossy(b).to_string()).collect::<Vec<_>>()});
                        viol.push(Violation { property: "C12".into(), class: "sentence-rejected-after-reuse".into(), key, what: format!("a sentence was rejected by a parser value that had parsed other inputs before: error at offset {pos}: {} [{} {}; {} after {:?}; input {:?}]", msg.chars().take(80).collect::<String>(), p.id(), p.layout(), pool[seq[k]].1, seq[..k].iter().map(|x| pool[*x].1.clone()).collect::<Vec<_>>(), text.chars().take(60).collect::<String>()), case, index: idx }.to_json());
                    }
                }
                Out::Panic(_) | Out::Budget => st.c15_business += 1,
                _ => {}
            }
        }
    }
    let digests = std::mem::take(&mut st.digests);
    json!({"stats": st.to_json(), "violations": viol, "digests": digests})
}

pub fn still_fails(r: &Runner, case: &Case, class: &str) -> bool {
    matches!(check(r, case, &mut Stats::default()), Verdict::Violation { class: c, .. } if c == class)
}

pub fn run(args: &Args) -> i32 {
    let paths = Paths { verif: args.verif.clone(), repo: args.repo.clone() };
    let t0 = crate::now_s();
    let mut entries = match corpus::load(&args.verif) {
        Ok(e) => e,
        Err(e) => {
            eprintln!("harness error: {e}");
            return 2;
        }
    };
    if let Some(only) = &args.only {
        // determinism self-test: a slice of the corpus
        for e in entries.iter_mut() {
            if !only.split(',').any(|o| e.id.contains(o)) {
                e.sentences.clear();
            }
        }
    }
    let r = Runner::new(args, 997);
    if let Err(e) = w_guard(&r, &entries) {
        eprintln!("harness error: {e}");
        return 2;
    }
    let summaries = match crate::pool::fan_out(args.workers, &|w, nw| work(args, &entries, w, nw)) {
        Ok(s) => s,
        Err(e) => {
            eprintln!("harness error: {e}");
            return 2;
        }
    };
    let mut merged = Value::Null;
    for s in &summaries {
        report::merge(&mut merged, s);
    }
    if let Some(errs) = merged.get("harness_errors").and_then(|e| e.as_array()) {
        if !errs.is_empty() {
            eprintln!("harness error: {:?}", errs);
            return 2;
        }
    }
    if let Some(out) = &args.digest_out {
        let (n, h) = report::write_digests(&merged, Some(out));
        println!("digest: {n} runs, hash {h:016x}");
    }
    let st = merged["stats"].clone();
    let mut violations: Vec<Violation> = merged["violations"].as_array().cloned().unwrap_or_default().iter().filter_map(Violation::from_json).collect();
    violations.sort_by(|a, b| (a.index, &a.key).cmp(&(b.index, &b.key)));
    // keys already name the specific (parser, sentence, offset); shrink the
    // report to one violation per (class, parser)
    let findings = report::load_findings(&paths).unwrap_or_default();
    let mut seen: BTreeSet<String> = BTreeSet::new();
    let mut out = vec![];
    for mut v in violations {
        let group = v.key.rsplitn(2, '|').nth(1).unwrap_or(&v.key).to_string();
        let known = findings.iter().any(|f| f.property == "C12" && f.status == "known" && f.key == v.key);
        if !known && !seen.insert(group) {
            continue;
        }
        if v.case["kind"].as_str() != Some("c12-reuse") {
            if let Some(case) = Case::from_json(&v.case) {
                if !still_fails(&r, &case, &v.class) {
                    v.what.push_str(" [WARNING: did not reproduce on re-run]");
                }
            }
        }
        out.push(v);
    }
    r.cleanup();
    let wall = crate::now_s() - t0;
    let cases = st["cases"].as_u64().unwrap_or(0);
    let mut samples = st["samples"].as_array().cloned().unwrap_or_default();
    samples.sort_by_key(|s| s.to_string());
    samples.truncate(6);
    let coverage = json!({
        "evaluations": cases,
        "distinct_nontrivial": report::distinct(&st["nontrivial"]),
        "rule": "one evaluation = one parse of a corpus sentence or of a stream the simulator damaged at a known offset (W whitespace inside an existing gap, T torn at a token end, G unrecognisable character at a token start; thorough: T/G on top of seeded stacks of W). Distinct by hash of (parser, layout, variant, input, expectation); non-trivial = a damaged stream whose verdict was validated (the soundness guard passed and the expectation was evaluated).",
        "samples": samples,
        "cases_by_variant": st["by_kind"], "validated": st["validated"], "inconclusive_skipped": st["inconclusive"],
        "ok_on_prefix": st["ok_on_prefix"], "left_to_C15_panic_or_budget": st["c15_business"],
        "lr_cases": st["lr"], "glr_cases": st["glr"], "multi_line_cases": st["multiline"], "non_ascii_cases": st["non_ascii"],
        "error_positions_checked_for_line_column": st["positions_checked"],
        "simulated_time_seam_events_total": st["seam_events"],
        "simulated_time_seam_events_max_per_parse": st["seam_events_max"].as_array().map(|a| a.iter().filter_map(|x| x.as_u64()).max().unwrap_or(0)).unwrap_or(0),
        "stream_faults_injected_by_kind": st["by_kind"],
        "parsers_x_layouts_covered": report::distinct(&st["parsers"]),
        "distinct_cases": report::distinct(&st["distinct"]),
        "runs_per_hour": if wall > 0.0 { (cases as f64 / wall * 3600.0) as u64 } else { 0 },
        "components": {
            "real": ["LRParser, GlrParser, StringLexer, generated tables (both layouts) and recognizers, error construction (rustemo runtime from /repo's working tree)"],
            "simulated": ["stream damage at an offset the injector knows", "recording pass-through lexer proxy (observes, never alters)"],
        },
        "exhaustive": args.tier == "quick" && false,
    });
    let rep = Report {
        property: "C12".into(),
        tier: args.tier.clone(),
        seed: args.seed,
        level: "exploration".into(),
        coverage,
        assumptions: vec![
            "RESTRICTED claim: only errors caused by damage the simulator injected into known sentences; arbitrary invalid inputs and the general 'no shift past the error' claim need a viable-prefix oracle and are not decided here".into(),
            "corpus sentences are inputs the repository's own tests assert to be accepted, or trivially derivable".into(),
            "W-eligibility is a hand-set corpus flag guarded at start-up; the expected-token list is only observable inside the message text and is not matched on wording".into(),
        ],
        wall_s: wall,
        violations: out,
    };
    let ev = args.evidence.clone().unwrap_or_else(|| args.verif.join("evidence/C12.json"));
    report::finish(&paths, rep, &ev)
}

pub fn replay(args: &Args, v: &Value, file: &std::path::Path) -> i32 {
    let r = Runner::new(args, 996);
    if v["case"]["kind"].as_str() == Some("c12-reuse") {
        let c = &v["case"];
        let inputs: Vec<Vec<u8>> = c["inputs"].as_array().cloned().unwrap_or_default().iter().filter_map(|x| x.as_str().map(|s| s.as_bytes().to_vec())).collect();
        let code = match r.parser(c["parser"].as_str().unwrap_or(""), c["layout"].as_str().unwrap_or("")) {
            Some(p) => match p.run_seq(&inputs, &RunCfg::default()).pop().map(|o| o.out) {
                Some(Out::ParseErr { pos, .. }) => {
                    println!("VIOLATION property=C12 replay={}", file.display());
                    println!("  class=sentence-rejected-after-reuse (error at offset {pos})");
                    1
                }
                _ => {
                    println!("replay: property C12 holds on this case now");
                    0
                }
            },
            None => 2,
        };
        r.cleanup();
        return code;
    }
    let code = match Case::from_json(&v["case"]) {
        Some(case) => match check(&r, &case, &mut Stats::default()) {
            Verdict::Violation { class, what } => {
                println!("VIOLATION property=C12 replay={}", file.display());
                println!("  class={class}");
                println!("  {what}");
                1
            }
            _ => {
                println!("replay: property C12 holds on this case now");
                0
            }
        },
        None => 2,
    };
    r.cleanup();
    code
}
