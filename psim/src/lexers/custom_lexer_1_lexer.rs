use super::custom_lexer_1::{State, TokenKind};
use rustemo::{Context, LRContext, Lexer, Position, Result, SourceSpan, Token};
use std::iter;

/// We are parsing a slice of bytes.
pub type Input = [u8];
pub type Ctx<'i> = LRContext<'i, Input, State, TokenKind>;

pub struct MyCustomLexer1();

impl MyCustomLexer1 {
    pub fn new() -> Self {
        MyCustomLexer1()
    }
}

/// This custom lexer will recognize a VarInt in the input by returning a slice
/// of the input where first bytes has highest bit set while the last byte
/// highest bit is .
impl<'i> Lexer<'i, Ctx<'i>, State, TokenKind> for MyCustomLexer1 {
    type Input = Input;

    fn next_tokens(
        &self,
        context: &mut Ctx<'i>,
        input: &'i Self::Input,
        _token_kinds: Vec<(TokenKind, bool)>,
    ) -> Box<dyn Iterator<Item = Token<'i, Self::Input, TokenKind>> + 'i> {
        let value;
        let kind: TokenKind;
        let mut pos = context.position();
        if context.position().pos >= input.len() {
            value = &[][..];
            kind = TokenKind::STOP;
        } else {
            // Increase position as long as the highest bit is set.
            while (input[pos.pos] & 0b1000_0000) != 0 {
                pos.pos += 1;
            }
            // Token value is the slice of the input where VarInt is reconized.
            value = &input[context.position().pos..=pos.pos];
            kind = TokenKind::VarInt;
        }

        Box::new(iter::once(Token {
            kind,
            value,
            span: SourceSpan {
                start: context.position(),
                end: pos,
            },
        }))
    }
}
