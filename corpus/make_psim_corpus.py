#!/usr/bin/env python3
"""Assembles /verif/corpus/psim from the repository's tests/examples/docs.

Run once at authoring time (the result is committed: the workload belongs to
the harness, DESIGN.md Appendix A).  Sentences marked valid are inputs the
repository's own tests assert to be accepted (or trivially derivable);
`*_error` test inputs are kept as invalid inputs (C15 only).
"""
import json
import os
import shutil

REPO = "/repo"
OUT = "/verif/corpus/psim"
T = REPO + "/tests/src/"

entries = []
# entries whose generated default actions are not expected to compile as they are
NO_DEFAULT_BUILDER = set()


def add(id, src, algo="lr", sentences=(), invalid=(), c12="TGW", w=True, w_reason="", files=(), inline=None, **settings):
    d = os.path.join(OUT, id)
    os.makedirs(d, exist_ok=True)
    if inline is not None:
        stem = settings.pop("stem", id)
        open(os.path.join(d, stem + ".rustemo"), "w").write(inline)
    else:
        stem = os.path.splitext(os.path.basename(src))[0].replace("-", "_")
        shutil.copy(src, os.path.join(d, stem + ".rustemo"))
    sents = [{"text": s, "valid": True} for s in sentences]
    sents += [{"text": s, "valid": False} for s in invalid]
    for f in files:
        txt = open(f, encoding="utf-8").read()
        sents.append({"text": txt, "valid": True, "from": os.path.relpath(f, REPO)})
    e = {"id": id, "stem": stem, "algo": algo, "sentences": sents, "c12": c12, "w_eligible": w, "w_reason": w_reason}
    # LR entries with the default lexer are also built with the generated
    # DefaultBuilder + generated actions (C15 only)
    if algo == "lr" and "lexer" not in settings and id not in NO_DEFAULT_BUILDER:
        e["default_builder"] = True
    e.update(settings)
    entries.append(e)


if os.path.exists(OUT):
    shutil.rmtree(OUT)
os.makedirs(OUT)

add("calc_lr", T + "from_file/calculator.rustemo",
    sentences=["2 + 3 / 4 + 5", "1", "1 + 2", "7 - 2 * 3 / 4 + 1", "1.5 * 2.25"],
    files=[T + "from_file/input1.calc"], invalid=["2 + 3 + 5 +", "+ 1"])
# both test inputs of this grammar are error tests ('/' is not in the grammar)
add("calc_err", T + "errors/syntax_errors/calc.rustemo", sentences=["2 + 3 + 5", "1"], invalid=["2 + 3 / 4 + 5", "2 + 3 + 5 +"])
add("json", REPO + "/examples/json/src/json.rustemo",
    files=[REPO + f"/examples/json/src/example{i}.json" for i in range(1, 6)] + [T + "builder/loc_info/loc_info.json"],
    sentences=['{"a": [1, 2, {"b": null}], "c": "x y"}', "[]", "{}", '[true, false, null, 1.5, "s"]',
               # a token longer than 50 bytes made of multi-byte characters
               '{"k": "' + "čžš→" * 12 + '", "n": 1}'],
    invalid=['{"a": }', "[1, 2", '{"a" 1}'],
    w_reason="string regex may contain whitespace only between the quotes it requires")

add("sugar_one_or_more_1", T + "sugar/one_or_more/one_or_more_1.rustemo", sentences=["c b 1 2 3 4", "c 1"], invalid=["1 2 3 4", "c b b 1 2 3 4", "c b"])
add("sugar_one_or_more_1_sep", T + "sugar/one_or_more/one_or_more_1_sep.rustemo", sentences=["c b 1, 2, 3, 4"], invalid=["c b 1, 2; 3, 4"])
add("sugar_one_or_more_2", T + "sugar/one_or_more/one_or_more_2.rustemo", sentences=["c 1 a", "c 1 2 3 4 a"], invalid=["c 1 2 3", "c a", "c 1 2 a 3"])
add("sugar_optional_1", T + "sugar/optional/optional_1.rustemo", sentences=["c b 1", "c b", "b 1"], invalid=["c 1", "c b 1 2"])
add("sugar_optional_2", T + "sugar/optional/optional_2.rustemo", sentences=["c 1", "c 1 a", "c a"], invalid=["c 1 2", "c a a"])
add("sugar_zero_or_more_1", T + "sugar/zero_or_more/zero_or_more_1.rustemo", sentences=["c b a a a a", "c  a a a a", "c"], invalid=["a a a a", "c b b a a a a"])
add("sugar_zero_or_more_1_sep", T + "sugar/zero_or_more/zero_or_more_1_sep.rustemo", sentences=["c b a, a, a, a"], invalid=["c b a, a a, a"])
add("sugar_zero_or_more_2", T + "sugar/zero_or_more/zero_or_more_2.rustemo", sentences=["c 1 2 3 a", "c a"], invalid=["c c a", "c 1 2 a a"])

add("rp_zero_or_more_1", T + "rule_patterns/zero_or_more_1.rustemo", sentences=["1 2 3", "1"])
add("rp_zero_or_more_2", T + "rule_patterns/zero_or_more_2.rustemo", sentences=["1 2 3", "1"])
add("rp_one_or_more", T + "rule_patterns/one_or_more.rustemo", sentences=["1 2 3", "1"])
add("rp_optional", T + "rule_patterns/optional.rustemo", sentences=["1"])

add("reduce_empty_1", T + "ambiguity/reduce_empty_1.rustemo", sentences=["b b b"], prefer_shifts=True)
add("reduce_empty_2", T + "ambiguity/reduce_empty_2.rustemo", sentences=["1 42 2 b"], prefer_shifts=True)

add("layout_ast", T + "layout/ast/layout.rustemo", sentences=["42 This6 should be 8 ignored 9 ", "1 2 3 4"],
    w=True, w_reason="layout rule: words and whitespace; W uses ASCII whitespace only", w_ascii_only=True)
add("rustemo_lang", REPO + "/rustemo-compiler/src/lang/rustemo.rustemo",
    files=[T + "from_file/calculator.rustemo", T + "layout/ast/layout.rustemo", T + "sugar/one_or_more/one_or_more_1_sep.rustemo",
           REPO + "/examples/json/src/json.rustemo", T + "partial/partial.rustemo", T + "ambiguity/prio_assoc_prod.rustemo",
           REPO + "/rustemo-compiler/src/lang/rustemo.rustemo"],
    invalid=["A: B", "A B;", "terminals"],
    w=True, w_reason="layout rule with nested comments; W uses ASCII whitespace only; regex/str terminals are delimited", w_ascii_only=True)

add("unicode", T + "unicode/unicode.rustemo", sentences=["Тестирање: čokančićem ћу те, чоканчићем ћеш ме."], c12="", w=False, partial=True)
add("partial", T + "partial/partial.rustemo", sentences=["Numbers: 1 7 42 b b whatever .... bla bla", "Numbers: 1"], c12="", w=False,
    prefer_shifts=True, partial=True)
add("fancy", T + "fancy_regex/fancy_regex.rustemo", sentences=["foo foo 42 27 13"], c12="TG", w=False, w_reason="look-around", fancy=True)

add("lexamb_lr_priorities", T + "lexical_ambiguity/priorities/priorities.rustemo", sentences=["a firstone"], c12="TG", w=False)
add("lexamb_lr_priorities_same", T + "lexical_ambiguity/priorities/priorities_same.rustemo", sentences=["a firstone"], c12="TG", w=False)
add("lexamb_lr_most_specific", T + "lexical_ambiguity/most_specific/most_specific.rustemo", sentences=["s a 42.42"], c12="TG", w=False)
add("lexamb_lr_most_specific_off", T + "lexical_ambiguity/most_specific_off/most_specific.rustemo", sentences=["s a 42.42"], c12="TG", w=False, most_specific=False)
add("lexamb_lr_longest_match", T + "lexical_ambiguity/longest_match/longest_match.rustemo", sentences=["s a 42.42"], c12="TG", w=False, most_specific=False)
add("lexamb_lr_grammar_order", T + "lexical_ambiguity/grammar_order/grammar_order.rustemo", sentences=["s a 42.42"], c12="TG", w=False,
    most_specific=False, longest_match=False)

add("special_pager_g1", T + "special/pager_g1/pager_g1.rustemo", sentences=["b e e c"])
add("special_lalrpop768", T + "special/lalrpop768/lalrpop768.rustemo", sentences=["u x b a"])
add("special_lalr_rr", T + "special/lalr_reduce_reduce_conflict/lang.rustemo", sentences=["a c d"])
# the LR parser cannot accept palindromes (documented in the grammar): the test input is an *invalid* input here
add("special_palindromes_lr", T + "special/nondeterministic_palindromes/lang.rustemo", sentences=[""], invalid=["01100100100110"], c12="", w=False)
add("generic_tree", T + "builder/generic_tree/generic_tree.rustemo", sentences=["a 42 a 3 b"])
add("use_context", T + "builder/use_context/use_context.rustemo", sentences=["a 1 42 b"])
add("output_dir", T + "output_dir/output_dir.rustemo", sentences=["b b b 1"])

add("varint_1", T + "lexer/custom_lexer/custom_lexer_1.rustemo", c12="", w=False, lexer="custom1", input="bytes",
    sentences_hex=["ac022a81c003", "00", "7f8001"])
add("varint_2", T + "lexer/custom_lexer/custom_lexer_2.rustemo", c12="", w=False, lexer="custom2", input="bytes",
    sentences_hex=["ac022a81c003", "00", "7f8001"])

add("glr_calc", T + "glr/forest/calc.rustemo", algo="glr", sentences=["1 + 4 * 9", "1 + 4 * 9 + 3", "1 + 4 * 9 + 3 * 2", "1 + 4 * 9 + 3 * 2 + 7", "5"])
add("glr_err_calc", T + "glr/errors/calc.rustemo", algo="glr", sentences=["1 + 4 * 9", "1 + 4 * 9 + 3 * 2 + 7"],
    invalid=["1 + 4 * 9 ! 3 * 2 + 7", "1 + 4 * 9 3 * 2 + 7", "1 + 4 * 9 + 3 * 2 +"])
add("glr_build_basic", T + "glr/build/basic/calc.rustemo", algo="glr", sentences=["1 + 4 * 9"])
add("glr_build_loc_info", T + "glr/build/loc_info/json.rustemo", algo="glr", files=[T + "builder/loc_info/loc_info.json"],
    sentences=['{"a": [1, 2]}'], w_reason="as json")
add("glr_eval_calc", T + "glr/evaluate/calc.rustemo", algo="glr", sentences=["1 + 4 * 9"])

G = T + "glr/lexical_ambiguity/"
add("glr_lexamb_priorities", G + "priorities/priorities.rustemo", algo="glr", sentences=["a firstone"], c12="TG", w=False)
add("glr_lexamb_priorities_same", G + "priorities/priorities_same.rustemo", algo="glr", sentences=["a firstone"], c12="TG", w=False)
add("glr_lexamb_most_specific", G + "most_specific/most_specific.rustemo", algo="glr", sentences=["s a 42.42"], c12="TG", w=False)
add("glr_lexamb_most_specific_off", G + "most_specific_off/most_specific.rustemo", algo="glr", sentences=["s a 42.42"], c12="TG", w=False,
    most_specific=False, longest_match=False)
add("glr_lexamb_longest_match", G + "longest_match/longest_match.rustemo", algo="glr", sentences=["s a 42.42"], c12="TG", w=False, most_specific=False)
add("glr_lexamb_longest_match_off", G + "longest_match_off/longest_match.rustemo", algo="glr", sentences=["s a 42.42"], c12="TG", w=False,
    most_specific=False, longest_match=False)
add("glr_lexamb_grammar_order", G + "grammar_order/grammar_order.rustemo", algo="glr", sentences=["s a 42.42"], c12="TG", w=False,
    most_specific=False, longest_match=False, grammar_order=True)
add("glr_lexamb_grammar_order_off", G + "grammar_order_off/grammar_order.rustemo", algo="glr", sentences=["s a 42.42"], c12="TG", w=False,
    most_specific=False, longest_match=False, grammar_order=False)

S = T + "glr/special/"
add("glr_bounded_ambiguity", S + "bounded_ambiguity/lang.rustemo", algo="glr", sentences=["xbbb"])
add("glr_bounded_direct_ambiguity", S + "bounded_direct_ambiguity/lang.rustemo", algo="glr", sentences=["txbbbbb"])
add("glr_farshi_g7", S + "farshi_g7/lang.rustemo", algo="glr", sentences=["aaaaaaaaxbbcaacaa"])
add("glr_farshi_g8", S + "farshi_g8/lang.rustemo", algo="glr", sentences=["xbbb"])
add("glr_highly_ambiguous", S + "highly_ambiguous/lang.rustemo", algo="glr", sentences=["bbb", "bbbb", "bbbbbb"])
add("glr_knuth_lr1", S + "knuth_lr1/lang.rustemo", algo="glr", sentences=["acccccccccd", "bcccccccccd", "acd"])
add("glr_palindromes", S + "nondeterministic_palindromes/lang.rustemo", algo="glr", sentences=["01100100100110", "0110"])
add("glr_reduce_enough_empty", S + "reduce_enough_empty/lang.rustemo", algo="glr", sentences=["xbbb"])
add("glr_reduce_enough_many_empty", S + "reduce_enough_many_empty/lang.rustemo", algo="glr", sentences=["xbbb"])
add("glr_right_nullable", S + "right_nullable/lang.rustemo", algo="glr", sentences=["aa"])
add("glr_unbounded_ambiguity", S + "unbounded_ambiguity/lang.rustemo", algo="glr", sentences=["xbbbbx"])
add("glr_cyclic_1", S + "cyclic_1/lang.rustemo", algo="glr", sentences=["x"], c12="", w=False, cyclic=True)
add("glr_cyclic_2", S + "cyclic_2/lang.rustemo", algo="glr", sentences=["x"], c12="", w=False, cyclic=True)
add("glr_issue_16", T + "glr/regressions/issue_16_subtract_overflow_panic/inline.rustemo", algo="glr", sentences=["*ld 2", "plain text", "_em_ and `code`"], c12="", w=False)
# GLR parsers with a Layout rule (the layout parser lives inside the GLR parser value)
add("layout_ast_glr", T + "layout/ast/layout.rustemo", algo="glr", sentences=["42 This6 should be 8 ignored 9 ", "1 2 3 4", "7 8 9 1 2"],
    w=True, w_reason="layout rule: words and whitespace; W uses ASCII whitespace only", w_ascii_only=True)
add("glr_issue_22", T + "glr/regressions/issue_22_panic_get_conflicts/unreach.rustemo", algo="glr", sentences=[], c12="", w=False)

# ---- harness-authored grammars written for reach (DESIGN.md 4/C15 corpus) ----
add("h_tokcount", None, algo="glr", inline="""S: ABC D | A B X;
terminals
ABC: 'abc';
A: 'a';
B: 'b';
D: 'd';
X: 'x';
""", sentences=["abcd", "abx"], c12="TG", w=False, most_specific=False, longest_match=False,
    w_reason="alternative tokenisations of the same text with different token counts")
for algo in ("lr", "glr"):
    add(f"h_nullable_edges_{algo}", None, algo=algo, stem="nullable_edges", inline="""S: Opt A Opt2;
Opt: 'o' | EMPTY;
Opt2: 'p' | EMPTY;
terminals
A: 'a';
O: 'o';
P: 'p';
""", sentences=["a", "o a", "a p", "o a p"])
    add(f"h_empty_only_{algo}", None, algo=algo, stem="empty_only", inline="""S: E;
E: EMPTY;
terminals
Unused: 'u';
""", sentences=["", "  \n "], c12="TG", w=False)
add("h_multibyte_tok", None, inline="""S: Item+;
Item: Cz | Arrow | Quoted;
terminals
Cz: 'čž';
Arrow: '→';
Quoted: /"[^"]*"/;
""", sentences=['čž → "a\nb" čž', '"multi\nline\n→ text" →\nčž', "→→čž", 'čž "' + "→é" * 20 + '" →'],
    w_reason="the quoted regex may contain whitespace only between the quotes it requires")
add("h_ws_regex", None, inline="""S: Part+;
Part: Words;
terminals
Words: /[a-z ]+;/;
""", sentences=["ab cd; ef;"], c12="", w=False, w_reason="terminal can consume gap whitespace")
add("h_nested_comments", None, inline="""S: Num+;
Layout: LayoutItem*;
LayoutItem: WS | Comment;
Comment: '/*' Corncs '*/' | CommentLine;
Corncs: Cornc*;
Cornc: Comment | NotComment | WS;
terminals
Num: /\\d+/;
WS: /\\s+/;
OComment: '/*';
CComment: '*/';
CommentLine: /\\/\\/.*/;
NotComment: /((\\*[^\\/])|[^\\s*\\/]|\\/[^\\*])+/;
""", sentences=["1 /* a /* nested */ b */ 2 // line\n3", "/* c */1/* d */2", "1 2 3"],
    w=True, w_reason="layout rule; W uses ASCII whitespace only", w_ascii_only=True)

add("h_nested_comments_glr", None, algo="glr", stem="h_nested_comments", inline=open(os.path.join(OUT, "h_nested_comments", "h_nested_comments.rustemo")).read(),
    sentences=["1 /* a /* nested */ b */ 2 // line\n3", "/* c */1/* d */2", "1 2 3", "1"],
    w=True, w_reason="layout rule; W uses ASCII whitespace only", w_ascii_only=True)
# a Layout rule with a *direct* EMPTY alternative (the last layout reduction can be empty)
for algo in ("lr", "glr"):
    add(f"h_layout_direct_empty_{algo}", None, algo=algo, stem="words", inline="""S: Word+;
Layout: LayoutItems | EMPTY;
LayoutItems: LayoutItems LayoutItem | LayoutItem;
LayoutItem: WS | Comment;
terminals
Word: /[a-z]+/;
WS: /\\s+/;
Comment: /#.*/;
""", sentences=["foo bar", "foo # c\n bar baz", "foo", " foo  bar "], invalid=["foo ?", " ?", "?", "foo? bar", ""],
        w=True, w_reason="layout rule; W uses ASCII whitespace only", w_ascii_only=True)
# LR: two same-priority regex terminals match the same word with the same
# length; the documented tie-break is grammar order (the first one wins)
add("h_lex_tie_lr", None, algo="lr", inline="""Prog: Stmt+;
Stmt: Name '=' Num ';' | Hex ':' Num ';';
terminals
Eq: '=';
Colon: ':';
Semi: ';';
Name: /[a-z]+/;
Hex: /[0-9a-f]+/;
Num: /[0-9]+/;
""", sentences=["abc = 1 ;", "12 : 3 ;", "abc = 1 ; 9f : 2 ; zz = 3 ;", "face = 10 ;"], invalid=["abc : 1 ;", "abc = ;"],
    c12="TG", w=False, w_reason="lexical ambiguity resolved by grammar order")
add("h_lex_tie3_lr", None, algo="lr", inline="""S: Item+;
Item: A 'x' | B 'y' | C 'z';
terminals
X: 'x';
Y: 'y';
Z: 'z';
A: /[a-c]+/;
B: /[b-d]+/;
C: /[c-e]+/;
""", sentences=["a x", "d y", "e z", "b x c x bc x", "dd y ee z cc x"], invalid=["b y", "c z"],
    c12="TG", w=False, w_reason="lexical ambiguity resolved by grammar order")
# two tokenisations that reach the SAME LR state at different offsets
add("h_tokcount_same_state", None, algo="glr", inline="""S: X A Z;
X: A | AA;
terminals
A: 'a';
AA: 'aa';
Z: 'z';
""", sentences=["aaaz", "aaz", "aa a z", "aa\na\n  z"], c12="TG", w=False, most_specific=False, longest_match=False,
    w_reason="lexical ambiguity with tokens of different lengths")
add("h_tokcount_nested", None, algo="glr", inline="""S: Item+ End;
Item: A | AB | ABC | B | C;
terminals
A: 'a';
AB: 'ab';
ABC: 'abc';
B: 'b';
C: 'c';
End: ';';
""", sentences=["abc;", "abcabc;", "a b c ab;", "ababc ;"], c12="TG", w=False, most_specific=False, longest_match=False,
    w_reason="lexical ambiguity with tokens of different lengths")

# GLR heads of one frontier at *different* input positions (tokens of
# different lengths recognised at the same place: a keyword and a keyword
# phrase with inner whitespace), followed by layout.  With a Layout rule the
# layout parser runs per head; with skip_ws the built-in skipper does.
PHRASE_LAYOUT = """Layout: LayoutItem*;
LayoutItem: WS | Comment;
"""
PHRASE_LAYOUT_T = """WS: /\\s+/;
Comment: /#.*/;
"""
for lay in (False, True):
    suffix = "_layout" if lay else "_ws"
    # a) head split by lexical ambiguity (disambiguation off)
    add("h_phrase_split" + suffix, None, algo="glr", stem="phrase_split", inline="""S: X Z | Y B Q;
X: AB;
Y: A;
""" + (PHRASE_LAYOUT if lay else "") + """terminals
A: 'a';
B: 'b';
AB: /a\\s+b/;
Z: 'z';
Q: 'q';
""" + (PHRASE_LAYOUT_T if lay else ""),
        sentences=["a b z", "a b q", "a  b\n z", "a  b\n q", "a b  z", "a b\tq"] + (["a b # c\n z", "a b # c\n q", "# lead\na b # c\n # d\n  q # tail", "a b # c\n z # tail"] if lay else []),
        invalid=["a b", "a b x", "a b z z", "a b q q", "a q", "ab z"] + (["a b # c\n", "a b # c\n x"] if lay else []),
        c12="TG", w=False, most_specific=False, longest_match=False,
        w_reason="lexical ambiguity with tokens of different lengths (phrase token with inner whitespace)")
    # b) default settings: two heads in different LR states expect tokens of different lengths
    add("h_phrase_states" + suffix, None, algo="glr", stem="phrase_states", inline="""S: P | N;
P: PSubj Colon Is Name;
N: NSubj Colon IsNot Name;
PSubj: Name;
NSubj: Name;
""" + (PHRASE_LAYOUT if lay else "") + """terminals
Name: /[a-z]+/;
Colon: ':';
Is: 'is';
IsNot: /is\\s+not/;
""" + (PHRASE_LAYOUT_T if lay else ""),
        sentences=["a : is n", "a : is not n", "a : is not", "a:is  not   n", "a : is\nnot\nn", "x : is\n not"] + (["a : is # c\n n", "a : is not # c\n n", "a : is not # c", "# l\na : # m\n is not # c\n # d\nn # t\n", "a : is # c\n not"] if lay else []),
        invalid=["a : is", "a : is not n !", "a : is not n m", "a : not n", "a is n", ": is n"] + (["a : is # c\n", "a : is not n # c\n !", "a : is not # c\n n\n# d\n\n m"] if lay else []),
        c12="TG", w=False,
        w_reason="keyword phrase token with inner whitespace: gaps are ambiguous")
    # c) three lengths at once and a nested list, so that several frontiers in a row are split
    add("h_phrase_list" + suffix, None, algo="glr", stem="phrase_list", inline="""S: Item+ End;
Item: A | AB | ABC | B | C;
""" + (PHRASE_LAYOUT if lay else "") + """terminals
A: 'a';
AB: /a\\s*b/;
ABC: /a\\s*b\\s*c/;
B: 'b';
C: 'c';
End: ';';
""" + (PHRASE_LAYOUT_T if lay else ""),
        sentences=["abc;", "a b c;", "a b c a b ;", "ab c a  b  c ;", "a\nb\nc\n;"] + (["a b # x\n c ;", "a # x\n b c # y\n ;", "a b c # x\n a b # y\n c # z\n;"] if lay else []),
        invalid=["a b c", "a b d ;", "; a"] + (["a b # x\n c", "a b # x\n d ;"] if lay else []),
        c12="TG", w=False, most_specific=False, longest_match=False,
        w_reason="lexical ambiguity with tokens of different lengths")

# a regex terminal that can match the empty string (zero-width tokens), and
# nullable rules whose empty derivations are cyclic: "bounded time" (C15)
for algo in ("lr", "glr"):
    add(f"h_zero_width_regex_{algo}", None, algo=algo, stem="zero_width", inline="""S: T+;
terminals
T: /a*/;
""", sentences=["aaa", "aa aa a"], invalid=["b", "aa b", ""], c12="", w=False, w_reason="zero-width tokens")
    add(f"h_zero_width_opt_{algo}", None, algo=algo, stem="zero_width_opt", inline="""S: Item+ End;
Item: Num | Word;
terminals
Num: /[0-9]*/;
Word: /[a-z]+/;
End: ';';
""", sentences=["12 ab ;", "ab ;", "7 ;"], invalid=["12 ab", "; ;", "?"], c12="", w=False, w_reason="zero-width tokens")
    add(f"h_empty_cycle_{algo}", None, algo=algo, stem="empty_cycle", inline="""L: A L | EMPTY;
A: EMPTY | X;
terminals
X: 'x';
""", sentences=(["", "x", "x x"] if algo == "glr" else []), invalid=["y", "x y"] + ([] if algo == "glr" else ["", "x", "x x"]),
        c12="", w=False, w_reason="infinitely ambiguous empty derivations; the LR table keeps 'A: EMPTY' and the parser reports the endless reductions", cyclic=(algo == "glr"))
# a terminal that is a prefix of a layout item ('/' and '// comment'), in the
# lookahead set of a reduction whose follow-up state does not take it: the
# comment glued to the previous token must still be skipped as layout after
# the reduction (re-lexing after reduce, C12)
TOK_PREFIX_LAYOUT = """Program: Stmt+;
Stmt: Name '=' Value
    | 'print' Expr;
Expr: Expr '/' Value
    | Value;
Value: Num;

Layout: LayoutItem*;
LayoutItem: WS | Comment;

terminals
Assign: '=';
Print: 'print';
Div: '/';
Name: /[a-z]+/;
Num: /\\d+/;
WS: /\\s+/;
Comment: /\\/\\/.*/;
"""
for algo in ("lr", "glr"):
    add(f"h_tok_prefix_of_layout_{algo}", None, algo=algo, stem="tok_prefix_of_layout", inline=TOK_PREFIX_LAYOUT,
        # (after a print expression '/' is expected, so '//' there is two Div
        # tokens by the lexer's token-before-layout rule: no comments there)
        sentences=["x = 3 // note\ny = 4\n", "x = 3// note\ny = 4\n", "print 6 / 2 / 1\nx = 1 // c", "x = 1// a\ny = 2// b\n// c\nprint 4/2"],
        invalid=["x = = 3", "print / 2", "x = 3// note\n= 4", "x = 3 /"],
        c12="TG", w=False, w_reason="line comments: a gap may end in a comment")
    # a regex with a top-level alternation: the recognizer must be anchored as a whole
    add(f"h_regex_alt_{algo}", None, algo=algo, stem="regex_alt", inline="""S: T+;
terminals
T: /a|b/;
""", sentences=["a b a", "b", "ab", "b a"], invalid=["c", "a c b", "cb", "a cb"], c12="TG", w=True, w_reason="single-letter tokens")
# GLR heads that die in the reducer (lookahead found, no action after the
# reductions) at a position further than the heads that found no lookahead
add("h_reducer_dead_glr", None, algo="glr", stem="reducer_dead", inline="""S: P U X | Q U Y | P A B Z;
U: ABC;
terminals
P: 'p';
Q: 'q';
X: 'x';
Y: 'y';
Z: 'z';
ABC: 'abc';
A: 'a';
B: 'b';
""", sentences=["p abc x", "q abc y", "p a b z", "pabcx", "p ab z"], invalid=["p abc y", "q abc x", "p abc", "p a b x"],
    c12="TG", w=False, most_specific=False, longest_match=False, w_reason="lexical ambiguity with tokens of different lengths")
# fancy_regex: a look-ahead regex that backtracks exponentially -- the regex
# engine gives up at run time (BacktrackLimitExceeded) on a key that is not
# followed by ':'; that is a resource fault inside a dependency and must
# surface as "token not recognised" -> Err, never as a panic (C15)
for algo in ("lr", "glr"):
    add(f"h_fancy_backtrack_{algo}", None, algo=algo, stem="fancy_backtrack", inline="""Pairs: Pair+;
Pair: Key ':' Num;
terminals
Key: /(a|b|ab)*(?=:)/;
Colon: ':';
Num: /\\d+/;
""", sentences=["ab: 1", "abab: 1 ba: 2", "ab" * 30 + ": 7", "a: 1 " + "ab" * 26 + ": 2"], invalid=["ab" * 30, "ab" * 30 + " 1", "ab 1"],
        c12="TG", w=False, w_reason="look-ahead", fancy=True)
json.dump({"entries": entries}, open(os.path.join(OUT, "manifest.json"), "w"), indent=1, ensure_ascii=False)
print(len(entries), "entries")
