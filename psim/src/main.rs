//! psim -- deterministic simulation of generated rustemo parsers (C12, C15):
//! real LRParser / GlrParser / StringLexer / generated tables behind
//! simulator-owned seams (lexer fault proxy, counting definition, step
//! budget, shim-controlled parse_file I/O).  See /verif/DESIGN.md.
//!
//! Exit codes: 0 held, 1 VIOLATION, 2 harness error.
#![allow(dead_code)]

#[macro_use]
pub mod case;
pub mod parsers {
    include!(concat!(env!("OUT_DIR"), "/parsers.rs"));
}
#[path = "../../rcsim/src/forkrun.rs"]
mod forkrun;
#[path = "../../rcsim/src/pool.rs"]
mod pool;
#[path = "../../rcsim/src/prng.rs"]
mod prng;
#[path = "../../rcsim/src/report.rs"]
mod report;
#[path = "../../rcsim/src/shim.rs"]
mod shim;
mod sim {
    pub use crate::case::PanicInfo;
}
mod c12;
mod c15;
mod corpus;

use std::path::PathBuf;

pub struct Args {
    pub cmd: String,
    pub tier: String,
    pub seed: u64,
    pub workers: usize,
    pub evidence: Option<PathBuf>,
    pub file: Option<PathBuf>,
    pub verif: PathBuf,
    pub repo: PathBuf,
    pub scale: f64,
    pub digest_out: Option<PathBuf>,
    /// restrict the run to corpus entries whose id contains this text (selftest)
    pub only: Option<String>,
}

fn parse_args() -> Args {
    let mut a = Args {
        cmd: String::new(),
        tier: std::env::var("VERIF_TIER").unwrap_or_else(|_| "quick".into()),
        seed: std::env::var("VERIF_SEED").ok().and_then(|s| s.parse().ok()).unwrap_or(1),
        workers: 16,
        evidence: None,
        file: None,
        verif: PathBuf::from("/verif"),
        repo: PathBuf::from("/repo"),
        scale: 1.0,
        digest_out: None,
        only: None,
    };
    let mut it = std::env::args().skip(1);
    while let Some(x) = it.next() {
        match x.as_str() {
            "--tier" => a.tier = it.next().unwrap_or_default(),
            "--seed" => a.seed = it.next().and_then(|s| s.parse().ok()).unwrap_or(1),
            "--workers" => a.workers = it.next().and_then(|s| s.parse().ok()).unwrap_or(16),
            "--evidence" => a.evidence = it.next().map(PathBuf::from),
            "--verif" => a.verif = it.next().map(PathBuf::from).unwrap(),
            "--repo" => a.repo = it.next().map(PathBuf::from).unwrap(),
            "--scale" => a.scale = it.next().and_then(|s| s.parse().ok()).unwrap_or(1.0),
            "--only" => a.only = it.next(),
            "--digest-out" => {
                a.digest_out = it.next().map(PathBuf::from);
                report::DIGEST.store(true, std::sync::atomic::Ordering::Relaxed);
            }
            _ if a.cmd.is_empty() => a.cmd = x,
            _ => a.file = Some(PathBuf::from(x)),
        }
    }
    if a.tier != "quick" && a.tier != "thorough" {
        eprintln!("harness error: unknown tier {:?}", a.tier);
        std::process::exit(2);
    }
    a
}

pub fn now_s() -> f64 {
    std::time::SystemTime::now().duration_since(std::time::UNIX_EPOCH).map(|d| d.as_secs_f64()).unwrap_or(0.0)
}

fn main() {
    let args = parse_args();
    let code = match args.cmd.as_str() {
        "c12" => c12::run(&args),
        "c15" => c15::run(&args),
        "replay" => c15::replay_cmd(&args),
        "list" => {
            for p in parsers::registry() {
                println!("{} {} glr={} partial={} layout={}", p.id(), p.layout(), p.glr(), p.partial(), p.has_layout());
            }
            0
        }
        _ => {
            eprintln!("usage: psim <c12|c15|replay|selftest|list> [--tier quick|thorough] [--seed N] [--workers W]");
            2
        }
    };
    std::process::exit(code);
}
